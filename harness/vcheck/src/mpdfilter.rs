//! Port of MPD's filter-expression grammar (song/Filter.cxx: SongFilter::ParseExpression,
//! ExpectWord, ExpectQuoted, ParseStringFilter) — DESIGN.md 3.7. Input is the argument *after*
//! the request tokenizer has unescaped it; C-string semantics (reading past the end gives NUL).

use serde::{Deserialize, Serialize};

use crate::core::B;

#[derive(Debug, Clone, Copy, PartialEq, Eq, Serialize, Deserialize, Hash)]
pub enum Op {
    Equal,
    NotEqual,
    Contains,
    Match,
    NotMatch,
}

#[derive(Debug, Clone, PartialEq, Eq, Serialize, Deserialize)]
pub enum Tree {
    Leaf { tag: String, op: Op, value: B },
    Not(Box<Tree>),
    And(Vec<Tree>),
}

impl Tree {
    /// Flatten directly nested ANDs ("same nesting up to associativity of AND").
    pub fn flatten(self) -> Tree {
        match self {
            Tree::Leaf { .. } => self,
            Tree::Not(inner) => Tree::Not(Box::new(inner.flatten())),
            Tree::And(items) => {
                let mut out = Vec::new();
                for it in items {
                    match it.flatten() {
                        Tree::And(inner) => out.extend(inner),
                        other => out.push(other),
                    }
                }
                Tree::And(out)
            }
        }
    }
}

struct P<'a> {
    s: &'a [u8],
    i: usize,
}

fn is_tag_char(c: u8) -> bool {
    c.is_ascii_alphabetic() || c == b'_' || c == b'-'
}

impl P<'_> {
    fn cur(&self) -> u8 {
        self.s.get(self.i).copied().unwrap_or(0)
    }
    fn at(&self, off: usize) -> u8 {
        self.s.get(self.i + off).copied().unwrap_or(0)
    }
    fn strip_left(&mut self) {
        while self.cur() > 0 && self.cur() <= 0x20 {
            self.i += 1;
        }
    }
    fn expect_word(&mut self) -> Result<String, String> {
        let start = self.i;
        while is_tag_char(self.cur()) {
            self.i += 1;
        }
        if self.i == start {
            return Err("Word expected".into());
        }
        let w = String::from_utf8(self.s[start..self.i].to_vec()).unwrap();
        self.strip_left();
        Ok(w)
    }
    fn expect_quoted(&mut self) -> Result<Vec<u8>, String> {
        let quote = self.cur();
        if quote != b'"' && quote != b'\'' {
            return Err("Quoted string expected".into());
        }
        self.i += 1;
        let mut out = Vec::new();
        while self.cur() != quote {
            if self.cur() == b'\\' {
                self.i += 1;
            }
            if self.cur() == 0 {
                return Err("Closing quote not found".into());
            }
            out.push(self.cur());
            self.i += 1;
            if out.len() >= 4096 {
                return Err("Quoted value is too long".into());
            }
        }
        self.i += 1;
        self.strip_left();
        Ok(out)
    }
    fn string_filter(&mut self) -> Result<(Op, Vec<u8>), String> {
        let rest = &self.s[self.i.min(self.s.len())..];
        if rest.len() >= 9 && rest[..9].eq_ignore_ascii_case(b"contains ") {
            self.i += 9;
            self.strip_left();
            return Ok((Op::Contains, self.expect_quoted()?));
        }
        let op = match (self.cur(), self.at(1)) {
            (b'!', b'=') => Op::NotEqual,
            (b'=', b'=') => Op::Equal,
            (b'=', b'~') => Op::Match,
            (b'!', b'~') => Op::NotMatch,
            _ => return Err("'==' or '!=' expected".into()),
        };
        self.i += 2;
        self.strip_left();
        Ok((op, self.expect_quoted()?))
    }
    fn expression(&mut self, depth: usize) -> Result<Tree, String> {
        // (a guard of the port, not of MPD, whose parser recurses without a limit)
        if depth > 4000 {
            return Err("too deep".into());
        }
        debug_assert_eq!(self.cur(), b'(');
        self.i += 1;
        self.strip_left();

        if self.cur() == b'(' {
            let first = self.expression(depth + 1)?;
            if self.cur() == b')' {
                self.i += 1;
                // MPD 0.23 does not skip blanks here, later versions do; the client never emits
                // any at this point, accepting them keeps the oracle a superset of both.
                self.strip_left();
                return Ok(first);
            }
            if self.expect_word()? != "AND" {
                return Err("'AND' expected".into());
            }
            let mut items = vec![first];
            loop {
                if self.cur() != b'(' {
                    return Err("'(' expected".into());
                }
                items.push(self.expression(depth + 1)?);
                if self.cur() == b')' {
                    self.i += 1;
                    self.strip_left();
                    return Ok(Tree::And(items));
                }
                if self.expect_word()? != "AND" {
                    return Err("'AND' expected".into());
                }
            }
        }

        if self.cur() == b'!' {
            self.i += 1;
            self.strip_left();
            if self.cur() != b'(' {
                return Err("'(' expected".into());
            }
            let inner = self.expression(depth + 1)?;
            if self.cur() != b')' {
                return Err("')' expected".into());
            }
            self.i += 1;
            self.strip_left();
            return Ok(Tree::Not(Box::new(inner)));
        }

        let tag = self.expect_word()?;
        let (op, value) = self.string_filter()?;
        if self.cur() != b')' {
            return Err("')' expected".into());
        }
        self.i += 1;
        self.strip_left();
        Ok(Tree::Leaf { tag, op, value: B(value) })
    }
}

/// `SongFilter::Parse` for an argument starting with `(`.
pub fn parse(arg: &[u8]) -> Result<Tree, String> {
    let arg = match arg.iter().position(|&b| b == 0) {
        Some(i) => &arg[..i],
        None => arg,
    };
    if arg.first() != Some(&b'(') {
        return Err("not an expression (no leading '(')".into());
    }
    let mut p = P { s: arg, i: 0 };
    let t = p.expression(0)?;
    if p.cur() != 0 {
        return Err("Unparsed garbage after expression".into());
    }
    Ok(t)
}

pub fn selftest() -> Result<(), String> {
    fn leaf(tag: &str, op: Op, v: &str) -> Tree {
        Tree::Leaf { tag: tag.into(), op, value: B(v.as_bytes().to_vec()) }
    }
    let ok: Vec<(&str, Tree)> = vec![
        ("(Artist == \"foo\")", leaf("Artist", Op::Equal, "foo")),
        ("(!(Artist == \"foo\"))", Tree::Not(Box::new(leaf("Artist", Op::Equal, "foo")))),
        (
            "((A == \"x\") AND (B != \"y\") AND (C =~ \"z\"))",
            Tree::And(vec![
                leaf("A", Op::Equal, "x"),
                leaf("B", Op::NotEqual, "y"),
                leaf("C", Op::Match, "z"),
            ]),
        ),
        ("(Artist == \"a\\\"b\\\\c\")", leaf("Artist", Op::Equal, "a\"b\\c")),
        ("(Artist == 'it\\'s')", leaf("Artist", Op::Equal, "it's")),
        ("(Artist contains \"x y\")", leaf("Artist", Op::Contains, "x y")),
        ("(Artist CONTAINS \"x\")", leaf("Artist", Op::Contains, "x")),
        ("(any == \"(x) AND (y)\")", leaf("any", Op::Equal, "(x) AND (y)")),
        ("(Artist !~ \"\")", leaf("Artist", Op::NotMatch, "")),
        (
            "((!((A == \"x\") AND (B == \"y\"))) AND (C == \"z\"))",
            Tree::And(vec![
                Tree::Not(Box::new(Tree::And(vec![
                    leaf("A", Op::Equal, "x"),
                    leaf("B", Op::Equal, "y"),
                ]))),
                leaf("C", Op::Equal, "z"),
            ]),
        ),
        ("((Artist == \"x\"))", leaf("Artist", Op::Equal, "x")),
    ];
    for (src, want) in ok {
        match parse(src.as_bytes()) {
            Ok(t) if t == want => {}
            other => return Err(format!("mpdfilter vector {src:?}: got {other:?}")),
        }
    }
    for bad in [
        "(Artist == \"x\") junk",
        "(Artist == \"x\"",
        "(Artist = \"x\")",
        "(Artist == x)",
        "(Artist == \"x)",
        "((A == \"x\") OR (B == \"y\"))",
        "((A == \"x\") AND(B == \"y\"))x",
        "(!A == \"x\")",
        "( == \"x\")",
        "Artist",
    ] {
        if let Ok(t) = parse(bad.as_bytes()) {
            return Err(format!("mpdfilter vector {bad:?} must be rejected, got {t:?}"));
        }
    }
    let nested = Tree::And(vec![
        Tree::And(vec![leaf("A", Op::Equal, "1"), leaf("B", Op::Equal, "2")]),
        leaf("C", Op::Equal, "3"),
    ]);
    if nested.flatten()
        != Tree::And(vec![
            leaf("A", Op::Equal, "1"),
            leaf("B", Op::Equal, "2"),
            leaf("C", Op::Equal, "3"),
        ])
    {
        return Err("flatten".into());
    }
    Ok(())
}
