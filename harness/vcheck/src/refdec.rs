//! Reference decoder: independent, non-streaming, over the complete byte string; written from the
//! grammar `OK | list_OK | ACK [c@i] {cmd} msg | binary: N + N bytes + LF | key: value`
//! (DESIGN.md 3.4). Oracle of C09 and of the libFuzzer stream target.

use crate::{
    core::B,
    streamlab::{eof, Terminal},
    wire::{OErr, OFrame, OResp},
};

#[derive(Debug, Clone, PartialEq, Eq)]
pub struct Decoded {
    pub responses: Vec<OResp>,
    /// acceptable terminal outcomes
    pub terminal: Vec<Terminal>,
    /// the stream contained at least one complete malformed line / misplaced payload terminator
    pub malformed: bool,
    pub complete_valid_lines: usize,
}

enum Line {
    Ok,
    ListOk,
    Ack(OErr),
    BinaryHeader(usize),
    Field(String, String),
    Malformed,
}

fn digits_u64(s: &[u8]) -> Option<u64> {
    if s.is_empty() || !s.iter().all(u8::is_ascii_digit) {
        return None;
    }
    std::str::from_utf8(s).ok()?.parse::<u64>().ok()
}

fn parse_ack(line: &[u8]) -> Option<OErr> {
    // ACK [code@index] {command} message
    let rest = line.strip_prefix(b"ACK [")?;
    let at = rest.iter().position(|&b| b == b'@')?;
    let code = digits_u64(&rest[..at])?;
    let rest = &rest[at + 1..];
    let close = rest.iter().position(|&b| b == b']')?;
    let index = digits_u64(&rest[..close])?;
    let rest = rest[close + 1..].strip_prefix(b" {")?;
    let end = rest.iter().position(|&b| b == b'}')?;
    let cmd = &rest[..end];
    if !cmd.iter().all(|b| b.is_ascii_alphabetic() || *b == b'_') {
        return None;
    }
    let rest = rest[end + 1..].strip_prefix(b" ")?;
    let message = std::str::from_utf8(rest).ok()?;
    Some(OErr {
        code,
        index,
        command: if cmd.is_empty() { None } else { Some(String::from_utf8(cmd.to_vec()).unwrap()) },
        message: message.to_string(),
    })
}

fn classify(line: &[u8]) -> Line {
    if line == b"OK" {
        return Line::Ok;
    }
    if line == b"list_OK" {
        return Line::ListOk;
    }
    if line.starts_with(b"ACK ") {
        // "ACK " can never be the start of a pair (a key is followed by ':')
        return match parse_ack(line) {
            Some(e) => Line::Ack(e),
            None => Line::Malformed,
        };
    }
    if let Some(rest) = line.strip_prefix(b"binary: ") {
        if !rest.is_empty() && rest.iter().all(u8::is_ascii_digit) {
            if let Some(n) = std::str::from_utf8(rest).ok().and_then(|s| s.parse::<usize>().ok()) {
                return Line::BinaryHeader(n);
            }
            // a length that is not a representable number: the line still matches the pair
            // grammar verbatim
        }
    }
    let key_len = line.iter().take_while(|b| b.is_ascii_alphabetic() || **b == b'_' || **b == b'-').count();
    if key_len == 0 {
        return Line::Malformed;
    }
    let Some(rest) = line[key_len..].strip_prefix(b": ") else {
        return Line::Malformed;
    };
    match std::str::from_utf8(rest) {
        Ok(v) => Line::Field(String::from_utf8(line[..key_len].to_vec()).unwrap(), v.to_string()),
        Err(_) => Line::Malformed,
    }
}

pub fn decode(stream: &[u8]) -> Decoded {
    let mut out = Decoded { responses: Vec::new(), terminal: Vec::new(), malformed: false, complete_valid_lines: 0 };
    let mut completed: Vec<OFrame> = Vec::new();
    let mut cur = OFrame::default();
    let mut in_list = false;
    let mut in_progress = false;
    let mut pos = 0;

    loop {
        if pos == stream.len() {
            out.terminal = vec![if in_progress { eof() } else { Terminal::CleanEof }];
            return out;
        }
        let Some(lf) = stream[pos..].iter().position(|&b| b == b'\n') else {
            // unterminated tail: whether it "could still have become valid" is the streaming
            // parser's question; either error is acceptable, consistency is C02's business
            out.terminal = vec![eof(), Terminal::Invalid];
            return out;
        };
        let line = &stream[pos..pos + lf];
        pos += lf + 1;
        match classify(line) {
            Line::Malformed => {
                out.malformed = true;
                out.terminal = vec![Terminal::Invalid];
                return out;
            }
            Line::Ok => {
                out.complete_valid_lines += 1;
                let frames = if in_list {
                    std::mem::take(&mut completed)
                } else {
                    vec![std::mem::take(&mut cur)]
                };
                cur = OFrame::default();
                out.responses.push(OResp { frames, error: None });
                in_list = false;
                in_progress = false;
            }
            Line::ListOk => {
                out.complete_valid_lines += 1;
                completed.push(std::mem::take(&mut cur));
                in_list = true;
                in_progress = true;
            }
            Line::Ack(e) => {
                out.complete_valid_lines += 1;
                let frames = std::mem::take(&mut completed);
                cur = OFrame::default();
                out.responses.push(OResp { frames, error: Some(e) });
                in_list = false;
                in_progress = false;
            }
            Line::Field(k, v) => {
                out.complete_valid_lines += 1;
                cur.fields.push((k, v));
                in_progress = true;
            }
            Line::BinaryHeader(n) => {
                let avail = stream.len() - pos;
                if avail <= n {
                    // payload (or its terminator) incomplete: only more input could decide
                    out.terminal = vec![eof()];
                    return out;
                }
                if stream[pos + n] != b'\n' {
                    out.malformed = true;
                    out.terminal = vec![Terminal::Invalid];
                    return out;
                }
                out.complete_valid_lines += 1;
                cur.binary = Some(B(stream[pos..pos + n].to_vec()));
                pos += n + 1;
                in_progress = true;
            }
        }
    }
}

#[derive(Debug, Clone, PartialEq, Eq)]
pub enum Greeting {
    /// version, number of bytes the greeting line occupies
    Valid(String, usize),
    Invalid,
    UnexpectedEof,
    /// already mismatching and no LF yet: either error, but the same under every segmentation
    InvalidOrEof,
}

pub fn classify_greeting(bytes: &[u8]) -> Greeting {
    const PREFIX: &[u8] = b"OK MPD ";
    match bytes.iter().position(|&b| b == b'\n') {
        Some(lf) => {
            let line = &bytes[..lf];
            match line.strip_prefix(PREFIX) {
                Some(v) if !v.is_empty() => match std::str::from_utf8(v) {
                    Ok(v) => Greeting::Valid(v.to_string(), lf + 1),
                    Err(_) => Greeting::Invalid,
                },
                _ => Greeting::Invalid,
            }
        }
        None => {
            let viable = if bytes.len() <= PREFIX.len() { PREFIX.starts_with(bytes) } else { bytes.starts_with(PREFIX) };
            if viable {
                Greeting::UnexpectedEof
            } else {
                Greeting::InvalidOrEof
            }
        }
    }
}

pub fn selftest() -> Result<(), String> {
    let d = decode(b"foo: bar\nOK\nlist_OK\nlist_OK\nOK\nACK [5@0] {} unknown command \"foo\"\n");
    if d.responses.len() != 3 || d.terminal != vec![Terminal::CleanEof] {
        return Err(format!("refdec vector 1: {d:?}"));
    }
    if d.responses[1].frames.len() != 2 || d.responses[2].error.as_ref().map(|e| e.code) != Some(5) {
        return Err(format!("refdec vector 1b: {d:?}"));
    }
    let d = decode(b"binary: 3\nab\n\nOK\n");
    if d.responses.len() != 1 || d.responses[0].frames[0].binary != Some(B(b"ab\n".to_vec())) {
        return Err(format!("refdec vector 2: {d:?}"));
    }
    let d = decode(b"binary: 3\nabcd\nOK\n");
    if !d.responses.is_empty() || d.terminal != vec![Terminal::Invalid] {
        return Err(format!("refdec vector 3: {d:?}"));
    }
    let d = decode(b"binary: 18446744073709551616\nOK\n");
    if d.responses.len() != 1 || d.responses[0].frames[0].fields != vec![("binary".to_string(), "18446744073709551616".to_string())] {
        return Err(format!("refdec vector 4: {d:?}"));
    }
    let d = decode(b"ACK [99999999999999999999@0] {} x\n");
    if d.terminal != vec![Terminal::Invalid] {
        return Err(format!("refdec vector 5: {d:?}"));
    }
    let d = decode(b"foo: bar\n");
    if d.terminal != vec![eof()] {
        return Err(format!("refdec vector 6: {d:?}"));
    }
    let d = decode(b"OK");
    if d.terminal != vec![eof(), Terminal::Invalid] {
        return Err(format!("refdec vector 7: {d:?}"));
    }
    let d = decode(b"foo bar\nOK\n");
    if d.terminal != vec![Terminal::Invalid] || !d.responses.is_empty() {
        return Err(format!("refdec vector 8: {d:?}"));
    }
    let d = decode(b"a: \xff\nOK\n");
    if d.terminal != vec![Terminal::Invalid] {
        return Err(format!("refdec vector 9: {d:?}"));
    }
    let d = decode(b"a: x\nACK [1@2] {play_x} m\n");
    if d.responses.len() != 1 || !d.responses[0].frames.is_empty() {
        return Err(format!("refdec vector 10: {d:?}"));
    }
    for (g, want) in [
        (&b"OK MPD 0.23.5\n"[..], Greeting::Valid("0.23.5".into(), 14)),
        (b"OK MPD \n", Greeting::Invalid),
        (b"OK MPD", Greeting::UnexpectedEof),
        (b"", Greeting::UnexpectedEof),
        (b"OK MPD 0.2", Greeting::UnexpectedEof),
        (b"OK MPX", Greeting::InvalidOrEof),
        (b"foobar\n", Greeting::Invalid),
        (b"OK MPD \xff\n", Greeting::Invalid),
        (b"OK MPD \xff", Greeting::UnexpectedEof),
    ] {
        if classify_greeting(g) != want {
            return Err(format!("greeting vector {:?}: {:?}", crate::core::escape_bytes(g), classify_greeting(g)));
        }
    }
    Ok(())
}
