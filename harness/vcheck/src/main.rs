#[cfg(feature = "chrono")]
use vlib_chrono as vlib;

use std::path::PathBuf;

use vlib::core::{self, Cfg, Tier};

fn usage() -> ! {
    eprintln!("usage: vcheck <C01..C20> <quick|thorough> [--replay FILE]");
    std::process::exit(2);
}

fn main() {
    let args: Vec<String> = std::env::args().skip(1).collect();
    if args.len() < 2 {
        usage();
    }
    let id = args[0].as_str();
    let tier = match args[1].as_str() {
        "quick" => Tier::Quick,
        "thorough" => Tier::Thorough,
        _ => usage(),
    };
    let mut replay: Option<PathBuf> = None;
    let mut i = 2;
    while i < args.len() {
        match args[i].as_str() {
            "--replay" => {
                replay = Some(PathBuf::from(args.get(i + 1).unwrap_or_else(|| usage())));
                i += 2;
            }
            _ => usage(),
        }
    }
    let seed: u64 = std::env::var("VERIF_SEED")
        .ok()
        .and_then(|s| s.trim().parse::<i128>().ok())
        .map(|v| v as u64)
        .unwrap_or(0);

    core::install_panic_hook();
    let Some(prop) = vlib::props::property(id, tier) else {
        eprintln!("unknown property {id}");
        std::process::exit(2);
    };
    core::start_watchdog(match (tier, replay.is_some()) {
        (_, true) => 600,
        (Tier::Quick, _) => 1500,
        (Tier::Thorough, _) => 4 * 3600,
    });
    let code = match replay {
        Some(path) => core::run_replay(&prop, &path),
        None => core::run_property(&prop, &Cfg { tier, seed }),
    };
    std::process::exit(code);
}
