#[cfg(feature = "chrono")]
use vlib_chrono as vlib;

use std::path::PathBuf;

use vlib::core::{self, Cfg, Tier};

fn usage() -> ! {
    eprintln!("usage: vcheck <C01..C20> <quick|thorough> [--replay FILE]");
    std::process::exit(2);
}

fn main() {
    let args: Vec<String> = std::env::args().skip(1).collect();
    if args.first().map(String::as_str) == Some("gen-corpus") {
        vlib::fuzzops::gen_corpus().expect("write corpus");
        return;
    }
    if args.first().map(String::as_str) == Some("fuzz-oracle") && args.len() == 3 {
        // vcheck fuzz-oracle <target> <file>: run one saved input through a target's oracle
        core::install_panic_hook();
        let data = std::fs::read(&args[2]).expect("read input");
        if args[1] == "fz_sim" && std::env::var_os("VERIF_DEBUG").is_some() {
            println!("{}", serde_json::to_string(&vlib::fuzzops::script_from_bytes(&data).0).unwrap());
        }
        let res = match args[1].as_str() {
            "fz_stream" => vlib::fuzzops::stream_target(&data),
            "fz_typed" => vlib::fuzzops::typed_target(&data),
            "fz_cmd" => vlib::fuzzops::cmd_target(&data),
            "fz_sim" => vlib::fuzzops::sim_target(&data),
            _ => usage(),
        };
        match res {
            Ok(()) => println!("ORACLE-OK"),
            Err(e) => {
                println!("ORACLE-FAILURE: {e}");
                std::process::exit(1);
            }
        }
        return;
    }
    if args.len() < 2 {
        usage();
    }
    let id = args[0].as_str();
    let tier = match args[1].as_str() {
        "quick" => Tier::Quick,
        "thorough" => Tier::Thorough,
        _ => usage(),
    };
    let mut replay: Option<PathBuf> = None;
    let mut i = 2;
    while i < args.len() {
        match args[i].as_str() {
            "--replay" => {
                replay = Some(PathBuf::from(args.get(i + 1).unwrap_or_else(|| usage())));
                i += 2;
            }
            _ => usage(),
        }
    }
    let seed: u64 = std::env::var("VERIF_SEED")
        .ok()
        .and_then(|s| s.trim().parse::<i128>().ok())
        .map(|v| v as u64)
        .unwrap_or(0);

    core::install_panic_hook();
    let Some(prop) = vlib::props::property(id, tier) else {
        eprintln!("unknown property {id}");
        std::process::exit(2);
    };
    core::start_watchdog(match (tier, replay.is_some()) {
        (_, true) => 600,
        (Tier::Quick, _) => 1500,
        (Tier::Thorough, _) => 4 * 3600,
    });
    let code = match replay {
        Some(path) => core::run_replay(&prop, &path),
        None => core::run_property(&prop, &Cfg { tier, seed }),
    };
    std::process::exit(code);
}
