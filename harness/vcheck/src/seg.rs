//! Segmenting transports: hand a byte stream to the code under test in harness-dictated chunks
//! (DESIGN.md 3.5).

use std::{
    future::Future,
    io::{self, Read},
    pin::Pin,
    sync::Arc,
    task::{Context, Poll, Wake, Waker},
};

use proptest::prelude::*;
use serde::{Deserialize, Serialize};
use tokio::io::{AsyncRead, ReadBuf};

#[derive(Clone, Debug, PartialEq, Eq, Serialize, Deserialize)]
pub enum Seg {
    /// as much as the caller's buffer takes per read
    Whole,
    OneByte,
    /// fixed chunk size
    Chunk(usize),
    /// cut offsets relative to the start of the response stream (after the greeting)
    Cuts(Vec<usize>),
}

impl Seg {
    /// absolute cut positions for data = greeting ++ stream
    pub fn cut_points(&self, greeting_len: usize, stream_len: usize) -> Vec<usize> {
        let total = greeting_len + stream_len;
        let mut cuts = match self {
            Seg::Whole => vec![],
            Seg::OneByte => (1..total).collect(),
            Seg::Chunk(n) => {
                let n = (*n).max(1);
                (1..).map(|i| greeting_len + i * n).take_while(|c| *c < total).collect()
            }
            Seg::Cuts(c) => c.iter().map(|c| greeting_len + c).filter(|c| *c < total).collect(),
        };
        // a server sends nothing after the greeting until it has read a command
        cuts.push(greeting_len);
        cuts.sort_unstable();
        cuts.dedup();
        cuts.retain(|c| *c > 0 && *c < total);
        cuts
    }

    pub fn cuts_inside(&self, stream_len: usize) -> bool {
        match self {
            Seg::Whole => false,
            Seg::OneByte => stream_len > 1,
            Seg::Chunk(n) => *n < stream_len,
            Seg::Cuts(c) => c.iter().any(|c| *c > 0 && *c < stream_len),
        }
    }
}

pub fn seg_strategy(stream_len_hint: usize) -> impl Strategy<Value = Seg> {
    let n = stream_len_hint.max(2);
    prop_oneof![
        2 => Just(Seg::Whole),
        2 => Just(Seg::OneByte),
        2 => prop_oneof![1..8usize, 8..200usize, 4000..4200usize].prop_map(Seg::Chunk),
        1 => net_chunk().prop_map(Seg::Chunk),
        4 => prop::collection::vec(0..n, 1..6usize).prop_map(Seg::Cuts),
        2 => (prop_oneof![Just(4096usize), Just(8192), Just(16384)], 0..5usize, prop::collection::vec(0..n, 0..3usize))
            .prop_map(|(b, d, mut more)| {
                more.push((b + d).saturating_sub(2));
                Seg::Cuts(more)
            }),
    ]
}

/// Read sizes a network stack produces (MSS/MTU values, socket buffer sizes) - not the powers of two a
/// tester would pick first.
pub const NET_CHUNKS: [usize; 12] = [536, 576, 1000, 1024, 1220, 1448, 1460, 1500, 2048, 2920, 9000, 65535];

pub fn net_chunk() -> impl Strategy<Value = usize> {
    (0..NET_CHUNKS.len()).prop_map(|i| NET_CHUNKS[i])
}

#[derive(Debug)]
pub struct ChunkState {
    data: Vec<u8>,
    pos: usize,
    cuts: Vec<usize>,
    pub reads: usize,
    pub read_limit: usize,
    pub bound_exceeded: bool,
    /// if set: reads at/after this absolute offset fail with this error kind instead of EOF
    pub fail_at_end: Option<io::ErrorKind>,
    /// if set: from this absolute offset on, every read is preceded by one transient `WouldBlock`
    /// error (blocking reader) - what a socket with a read timeout does
    pub interrupt_from: Option<usize>,
    interrupted_at: Option<usize>,
    pub interrupts: usize,
    /// REAL time that passes before the reads with these (0-based) indices return: a slow peer
    pub sleep_before_read: Vec<(usize, u64)>,
}

impl ChunkState {
    pub fn new(data: Vec<u8>, cuts: Vec<usize>) -> Self {
        let read_limit = data.len() + cuts.len() + 64;
        ChunkState { data, pos: 0, cuts, reads: 0, read_limit, bound_exceeded: false, fail_at_end: None, interrupt_from: None, interrupted_at: None, interrupts: 0, sleep_before_read: Vec::new() }
    }

    fn next(&mut self, want: usize) -> io::Result<&[u8]> {
        if let Some(from) = self.interrupt_from {
            if self.pos >= from && self.interrupted_at != Some(self.pos) {
                self.interrupted_at = Some(self.pos);
                self.interrupts += 1;
                return Err(io::Error::new(io::ErrorKind::WouldBlock, "harness: transient read timeout"));
            }
        }
        if let Some((_, ms)) = self.sleep_before_read.iter().find(|(k, _)| *k == self.reads) {
            std::thread::sleep(std::time::Duration::from_millis(*ms));
        }
        self.reads += 1;
        if self.reads > self.read_limit {
            self.bound_exceeded = true;
            return Err(io::Error::other("harness: read bound exceeded"));
        }
        if self.pos >= self.data.len() {
            if let Some(kind) = self.fail_at_end {
                return Err(io::Error::new(kind, "harness: injected read error"));
            }
            return Ok(&[]);
        }
        let next_cut = self.cuts.iter().copied().find(|c| *c > self.pos).unwrap_or(self.data.len());
        let n = (next_cut - self.pos).min(want);
        let s = &self.data[self.pos..self.pos + n];
        self.pos += n;
        Ok(s)
    }

    pub fn consumed(&self) -> usize {
        self.pos
    }
}

/// Blocking reader (also accepts and discards writes so `send` works on the same object).
pub struct ChunkReader(pub ChunkState);

impl Read for ChunkReader {
    fn read(&mut self, buf: &mut [u8]) -> io::Result<usize> {
        let s = self.0.next(buf.len())?;
        buf[..s.len()].copy_from_slice(s);
        Ok(s.len())
    }
}

impl io::Write for ChunkReader {
    fn write(&mut self, buf: &[u8]) -> io::Result<usize> {
        Ok(buf.len())
    }
    fn flush(&mut self) -> io::Result<()> {
        Ok(())
    }
}

pub struct AsyncChunkReader {
    pub st: ChunkState,
    /// return one spurious Pending (with an immediate wake) before every read
    pub pending_first: bool,
    armed: bool,
}

impl AsyncChunkReader {
    pub fn new(st: ChunkState, pending_first: bool) -> Self {
        AsyncChunkReader { st, pending_first, armed: false }
    }
}

impl AsyncRead for AsyncChunkReader {
    fn poll_read(mut self: Pin<&mut Self>, cx: &mut Context<'_>, buf: &mut ReadBuf<'_>) -> Poll<io::Result<()>> {
        if self.pending_first && !self.armed {
            self.armed = true;
            cx.waker().wake_by_ref();
            return Poll::Pending;
        }
        self.armed = false;
        let want = buf.remaining();
        let s = self.st.next(want)?;
        buf.put_slice(s);
        Poll::Ready(Ok(()))
    }
}

impl tokio::io::AsyncWrite for AsyncChunkReader {
    fn poll_write(self: Pin<&mut Self>, _cx: &mut Context<'_>, data: &[u8]) -> Poll<io::Result<usize>> {
        Poll::Ready(Ok(data.len()))
    }
    fn poll_flush(self: Pin<&mut Self>, _cx: &mut Context<'_>) -> Poll<io::Result<()>> {
        Poll::Ready(Ok(()))
    }
    fn poll_shutdown(self: Pin<&mut Self>, _cx: &mut Context<'_>) -> Poll<io::Result<()>> {
        Poll::Ready(Ok(()))
    }
}

struct NoopWake;
impl Wake for NoopWake {
    fn wake(self: Arc<Self>) {}
}

/// Minimal executor for futures whose only source of `Pending` is the reader above.
pub fn block_on<F: Future>(fut: F) -> F::Output {
    let waker = Waker::from(Arc::new(NoopWake));
    let mut cx = Context::from_waker(&waker);
    let mut fut = std::pin::pin!(fut);
    let mut spins = 0u64;
    loop {
        if let Poll::Ready(v) = fut.as_mut().poll(&mut cx) {
            return v;
        }
        spins += 1;
        assert!(spins < 50_000_000, "harness: future never completes");
    }
}
