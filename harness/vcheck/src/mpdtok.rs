//! Port of MPD's request-line handling (client/Read.cxx, client/Process.cxx,
//! command/AllCommands.cxx argument loop, util/Tokenizer.cxx) — DESIGN.md 3.6.
//! Works on bytes with C-string semantics, exactly as MPD does.

/// MPD's `IsWhitespaceOrNull`
fn ws_or_nul(b: u8) -> bool {
    b <= 0x20
}

/// MPD's `IsWhitespaceNotNull`
fn ws(b: u8) -> bool {
    b > 0 && b <= 0x20
}

/// What `Client::OnSocketInput` hands to `ProcessLine` for the bytes before an LF: trailing bytes
/// <= 0x20 stripped, then terminated as a C string (so the first NUL ends it).
pub fn c_line(raw: &[u8]) -> &[u8] {
    debug_assert!(!raw.contains(&b'\n'));
    let mut end = raw.len();
    while end > 0 && ws_or_nul(raw[end - 1]) {
        end -= 1;
    }
    let line = &raw[..end];
    match line.iter().position(|&b| b == 0) {
        Some(i) => &line[..i],
        None => line,
    }
}

#[derive(Debug, Clone, PartialEq, Eq)]
pub enum TokError {
    NoCommand,
    LetterExpected,
    InvalidWordCharacter,
    InvalidUnquotedCharacter,
    MissingClosingQuote,
    SpaceExpectedAfterQuote,
    TooManyArguments,
}

struct Tok<'a> {
    s: &'a [u8],
    i: usize,
}

impl<'a> Tok<'a> {
    fn cur(&self) -> u8 {
        // C string: reading at the end yields NUL
        self.s.get(self.i).copied().unwrap_or(0)
    }

    fn strip_left(&mut self) {
        while ws(self.cur()) {
            self.i += 1;
        }
    }

    fn next_word(&mut self) -> Result<Option<Vec<u8>>, TokError> {
        if self.cur() == 0 {
            return Ok(None);
        }
        if !self.cur().is_ascii_alphabetic() {
            return Err(TokError::LetterExpected);
        }
        let start = self.i;
        self.i += 1;
        loop {
            let c = self.cur();
            if c == 0 {
                return Ok(Some(self.s[start..self.i].to_vec()));
            }
            if ws_or_nul(c) {
                let word = self.s[start..self.i].to_vec();
                self.i += 1;
                self.strip_left();
                return Ok(Some(word));
            }
            if !(c.is_ascii_alphanumeric() || c == b'_') {
                return Err(TokError::InvalidWordCharacter);
            }
            self.i += 1;
        }
    }

    fn next_unquoted(&mut self) -> Result<Option<Vec<u8>>, TokError> {
        fn valid(c: u8) -> bool {
            c > 0x20 && c != b'"' && c != b'\''
        }
        if self.cur() == 0 {
            return Ok(None);
        }
        if !valid(self.cur()) {
            return Err(TokError::InvalidUnquotedCharacter);
        }
        let start = self.i;
        self.i += 1;
        loop {
            let c = self.cur();
            if c == 0 {
                return Ok(Some(self.s[start..self.i].to_vec()));
            }
            if ws_or_nul(c) {
                let word = self.s[start..self.i].to_vec();
                self.i += 1;
                self.strip_left();
                return Ok(Some(word));
            }
            if !valid(c) {
                return Err(TokError::InvalidUnquotedCharacter);
            }
            self.i += 1;
        }
    }

    fn next_string(&mut self) -> Result<Option<Vec<u8>>, TokError> {
        if self.cur() == 0 {
            return Ok(None);
        }
        debug_assert_eq!(self.cur(), b'"');
        self.i += 1;
        let mut out = Vec::new();
        while self.cur() != b'"' {
            if self.cur() == b'\\' {
                self.i += 1;
            }
            if self.cur() == 0 {
                return Err(TokError::MissingClosingQuote);
            }
            out.push(self.cur());
            self.i += 1;
        }
        self.i += 1;
        if !ws_or_nul(self.cur()) {
            return Err(TokError::SpaceExpectedAfterQuote);
        }
        self.strip_left();
        Ok(Some(out))
    }

    fn next_param(&mut self) -> Result<Option<Vec<u8>>, TokError> {
        if self.cur() == b'"' {
            self.next_string()
        } else {
            self.next_unquoted()
        }
    }
}

pub const COMMAND_ARGV_MAX: usize = 16;

/// Tokenise one request line (without its LF): command word followed by the parameters.
pub fn tokenize(raw_line: &[u8]) -> Result<Vec<Vec<u8>>, TokError> {
    tokenize_limited(raw_line, COMMAND_ARGV_MAX)
}

/// The same without MPD's limit on the number of arguments (a compile-time constant of the server, not
/// part of the protocol grammar): used where a property speaks about WHICH arguments are sent for a
/// list of any length, e.g. `tagtypes enable` with more than 15 tags.
pub fn tokenize_any_count(raw_line: &[u8]) -> Result<Vec<Vec<u8>>, TokError> {
    tokenize_limited(raw_line, usize::MAX)
}

fn tokenize_limited(raw_line: &[u8], max_args: usize) -> Result<Vec<Vec<u8>>, TokError> {
    let line = c_line(raw_line);
    let mut t = Tok { s: line, i: 0 };
    let mut out = Vec::new();
    match t.next_word()? {
        None => return Err(TokError::NoCommand),
        Some(w) => out.push(w),
    }
    loop {
        // `Request args(argv, 0)` excludes the command name; the check precedes NextParam
        if out.len() - 1 == max_args {
            return Err(TokError::TooManyArguments);
        }
        match t.next_param()? {
            None => break,
            Some(p) => out.push(p),
        }
    }
    Ok(out)
}

/// How `Client::ProcessLine` classifies a line with respect to command-list framing.
#[derive(Debug, Clone, Copy, PartialEq, Eq)]
pub enum LineKind {
    ListBegin,
    ListOkBegin,
    ListEnd,
    Other,
}

pub fn line_kind(raw_line: &[u8]) -> LineKind {
    match c_line(raw_line) {
        b"command_list_begin" => LineKind::ListBegin,
        b"command_list_ok_begin" => LineKind::ListOkBegin,
        b"command_list_end" => LineKind::ListEnd,
        _ => LineKind::Other,
    }
}

/// Split written bytes into LF-terminated lines; `Err` if the last line is unterminated.
pub fn split_lines(bytes: &[u8]) -> Result<Vec<&[u8]>, String> {
    let mut out = Vec::new();
    let mut rest = bytes;
    while !rest.is_empty() {
        match rest.iter().position(|&b| b == b'\n') {
            Some(i) => {
                out.push(&rest[..i]);
                rest = &rest[i + 1..];
            }
            None => return Err(format!("unterminated line {:?}", crate::core::escape_bytes(rest))),
        }
    }
    Ok(out)
}

pub fn selftest() -> Result<(), String> {
    fn v(items: &[&str]) -> Result<Vec<Vec<u8>>, TokError> {
        Ok(items.iter().map(|s| s.as_bytes().to_vec()).collect())
    }
    let cases: Vec<(&[u8], Result<Vec<Vec<u8>>, TokError>)> = vec![
        (b"add \"foo bar\"", v(&["add", "foo bar"])),
        (b"add \"a\\\"b\\\\c\"", v(&["add", "a\"b\\c"])),
        (b"add foo\\bar", v(&["add", "foo\\bar"])),
        (b"add it's", Err(TokError::InvalidUnquotedCharacter)),
        (b"add \"x\"y", Err(TokError::SpaceExpectedAfterQuote)),
        (b"add \"\"", v(&["add", ""])),
        (b"add  a \t b  ", v(&["add", "a", "b"])),
        (b"1play", Err(TokError::LetterExpected)),
        (b"_play", Err(TokError::LetterExpected)),
        (b"pl-ay", Err(TokError::InvalidWordCharacter)),
        (b"x \"a", Err(TokError::MissingClosingQuote)),
        (b"x a\0b c", v(&["x", "a"])),
        (b"x a\r", v(&["x", "a"])),
        (b"x a\x01b", v(&["x", "a", "b"])),
        (b"", Err(TokError::NoCommand)),
        (b"   ", Err(TokError::NoCommand)),
        (b"status", v(&["status"])),
        (b"play2 x", v(&["play2", "x"])),
        (b"x \"a\\", Err(TokError::MissingClosingQuote)),
        (b"x a\"b", Err(TokError::InvalidUnquotedCharacter)),
        (b"find \"(Artist == \\\"foo\\\")\"", v(&["find", "(Artist == \"foo\")"])),
        (b"x \xc3\xa4\xff", Ok(vec![b"x".to_vec(), b"\xc3\xa4\xff".to_vec()])),
    ];
    for (line, want) in cases {
        let got = tokenize(line);
        if got != want {
            return Err(format!(
                "mpdtok vector {:?}: got {:?}, want {:?}",
                crate::core::escape_bytes(line),
                got,
                want
            ));
        }
    }
    let mut many = b"x".to_vec();
    for _ in 0..15 {
        many.extend_from_slice(b" a");
    }
    if tokenize(&many).map(|t| t.len()) != Ok(16) {
        return Err("15 arguments must be accepted".into());
    }
    many.extend_from_slice(b" a");
    if tokenize(&many) != Err(TokError::TooManyArguments) {
        return Err("16 arguments must be rejected".into());
    }
    if line_kind(b"command_list_end  ") != LineKind::ListEnd
        || line_kind(b"command_list_end x") != LineKind::Other
        || line_kind(b"command_list_ok_begin") != LineKind::ListOkBegin
        || line_kind(b"command_list_begin\0junk") != LineKind::ListBegin
    {
        return Err("line_kind vectors".into());
    }
    Ok(())
}
