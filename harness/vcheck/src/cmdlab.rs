//! Command lab: sends commands through the real blocking `Connection` into a byte sink and
//! offers the string generators shared by C06/C07/C11/C13/C15 (DESIGN.md 3.6).

use std::io::{self, Read, Write};

use mpd_protocol::{Command, CommandList, Connection};
use proptest::prelude::*;

/// In-memory transport: serves `input`, collects everything written.
pub struct Duplex {
    input: io::Cursor<Vec<u8>>,
    pub output: Vec<u8>,
    /// that many of the next writes are refused with `WouldBlock` before taking a single byte
    pub refuse_writes: u32,
}

impl Duplex {
    pub fn new(input: &[u8]) -> Self {
        Duplex { input: io::Cursor::new(input.to_vec()), output: Vec::new(), refuse_writes: 0 }
    }
}

impl Read for Duplex {
    fn read(&mut self, buf: &mut [u8]) -> io::Result<usize> {
        self.input.read(buf)
    }
}

impl Write for Duplex {
    fn write(&mut self, buf: &[u8]) -> io::Result<usize> {
        if self.refuse_writes > 0 {
            self.refuse_writes -= 1;
            return Err(io::Error::new(io::ErrorKind::WouldBlock, "harness: transport not ready, nothing written"));
        }
        self.output.extend_from_slice(buf);
        Ok(buf.len())
    }
    fn flush(&mut self) -> io::Result<()> {
        Ok(())
    }
}

pub fn connection() -> Connection<Duplex> {
    let mut io = Duplex::new(b"OK MPD 0.23.5\n");
    // send histories 4 and 5: the connection's first attempt to send something is refused by the
    // transport before a single byte is taken; the application gives up on that request
    let refused = crate::core::send_history();
    if refused == 4 || refused == 5 {
        io.refuse_writes = 1;
    }
    let mut c = Connection::connect(io).expect("greeting accepted");
    match refused {
        4 => assert!(c.send_list(CommandList::new(Command::new("stats")).command(Command::new("outputs"))).is_err(), "harness: refused write must fail"),
        5 => assert!(c.send(Command::new("stats")).is_err(), "harness: refused write must fail"),
        _ => {}
    }
    c
}

/// What a connection has sent before the command under test (ambient dimension `send_history`):
/// (the commands, the bytes they are on the wire - a literal, not computed by the code under test).
fn prelude() -> (Vec<(Option<Command>, Option<CommandList>)>, Vec<u8>) {
    let long_arg = "x".repeat(300);
    let long = || Command::new("add").argument(long_arg.as_str());
    let long_bytes = format!("add {long_arg}\n").into_bytes();
    let list = || CommandList::new(Command::new("status")).command(Command::new("stats"));
    let list_bytes = b"command_list_ok_begin\nstatus\nstats\ncommand_list_end\n".to_vec();
    match crate::core::send_history() {
        1 => (vec![(Some(long()), None)], long_bytes),
        2 => (vec![(None, Some(list()))], list_bytes),
        3 => (vec![(Some(long()), None), (None, Some(list())), (Some(Command::new("ping")), None)], [long_bytes, list_bytes, b"ping\n".to_vec()].concat()),
        _ => (Vec::new(), Vec::new()),
    }
}

/// Removes the prelude's bytes from the front of `output`; if they are not there, the whole output
/// is returned (and the caller's comparison fails, showing them).
fn strip_prelude(output: Vec<u8>, prelude_bytes: &[u8]) -> Vec<u8> {
    match output.strip_prefix(prelude_bytes) {
        Some(rest) => rest.to_vec(),
        None => output,
    }
}

/// Bytes `Connection::send` writes for `cmd`.
pub fn sent_bytes(cmd: Command) -> Vec<u8> {
    let mut c = connection();
    let (before, bytes) = prelude();
    for (cmd, list) in before {
        if let Some(x) = cmd {
            c.send(x).expect("write to Vec cannot fail");
        }
        if let Some(l) = list {
            c.send_list(l).expect("write to Vec cannot fail");
        }
    }
    c.send(cmd).expect("write to Vec cannot fail");
    strip_prelude(c.into_inner().output, &bytes)
}

/// Bytes `Connection::send_list` writes for `list`.
pub fn sent_list_bytes(list: CommandList) -> Vec<u8> {
    let mut c = connection();
    let (before, bytes) = prelude();
    for (cmd, l) in before {
        if let Some(x) = cmd {
            c.send(x).expect("write to Vec cannot fail");
        }
        if let Some(l) = l {
            c.send_list(l).expect("write to Vec cannot fail");
        }
    }
    c.send_list(list).expect("write to Vec cannot fail");
    strip_prelude(c.into_inner().output, &bytes)
}

/// The character classes that matter to either side (C06 quantifier).
pub const CLASS_ALPHABET: [&str; 12] =
    ["a", " ", "\t", "\u{1}", "\u{1f}", "\"", "'", "\\", "\0", "\u{e9}", "\n", "\u{7f}"];

pub fn is_special_byte(b: u8) -> bool {
    b <= 0x20 || b == b'"' || b == b'\'' || b == b'\\' || b >= 0x80
}

/// One character, biased towards the classes that matter.
pub fn class_char() -> impl Strategy<Value = char> {
    prop_oneof![
        6 => prop::char::range('a', 'z'),
        2 => prop::char::range('!', '~'),
        2 => Just(' '),
        1 => Just('\t'),
        1 => prop::char::range('\u{1}', '\u{1f}').prop_filter("no LF", |c| *c != '\n'),
        1 => Just('\u{7f}'),
        2 => Just('"'),
        2 => Just('\''),
        2 => Just('\\'),
        1 => prop::char::range('\u{80}', '\u{2fff}'),
        1 => prop::char::range('\u{1f300}', '\u{1f6ff}'),
    ]
}

/// Argument strings without LF/NUL (those are rejected by the builder, generated separately).
pub fn arg_string(max_len: usize) -> impl Strategy<Value = String> {
    prop_oneof![
        1 => Just(String::new()),
        8 => prop::collection::vec(class_char(), 1..8usize).prop_map(|v| v.into_iter().collect()),
        3 => prop::collection::vec(class_char(), 1..=max_len.max(2)).prop_map(|v| v.into_iter().collect()),
        1 => "[a-z]{1,12}",
        // dense in characters that double under escaping, lengths around the powers of two, with one
        // or two blanks / tabs / letters somewhere (fixed-size scratch buffers, length estimates)
        2 => (
            prop_oneof![Just(8usize), Just(16), Just(32), Just(64), Just(128), Just(256), Just(1024)],
            -1..=1i32,
            prop::collection::vec((any::<u16>(), prop_oneof![Just(' '), Just('\t'), Just('a'), Just('\u{7f}'), Just('\u{e9}')]), 0..3usize),
            prop::collection::vec(prop_oneof![Just('\\'), Just('"'), Just('\'')], 3),
        )
            .prop_map(|(base, d, holes, pool)| {
                let n = (base as i32 + d) as usize;
                let mut v: Vec<char> = (0..n).map(|i| pool[i % pool.len()]).collect();
                for (at, c) in holes {
                    let i = crate::core::pick_idx(at, n);
                    v[i] = c;
                }
                v.into_iter().collect()
            }),
        1 => (0..crate::props::c15::ODD_STRINGS.len()).prop_map(|i| crate::props::c15::ODD_STRINGS[i].to_string()),
        // an otherwise plain string (letters, or multi-byte text) of 9-80 or 2^k+-1 characters with
        // exactly ONE character of another class, biased to the first and last eight positions (a scan
        // that treats the head, the body and the tail of a string differently - word-at-a-time, SIMD,
        // chunked - is wrong for one of them)
        3 => (
            prop_oneof![3 => 9..80usize, 1 => (5..=12u32, -1..=1i32).prop_map(|(k, d)| ((1i32 << k) + d) as usize)],
            prop_oneof![3 => 0..8usize, 3 => (0..8usize).prop_map(|i| usize::MAX - i), 2 => 0..4200usize],
            class_char(),
            any::<bool>(),
        )
            .prop_map(|(n, at, c, wide)| {
                let mut v: Vec<char> = (0..n).map(|i| if wide && i % 5 == 4 { '\u{e9}' } else { (b'a' + (i % 26) as u8) as char }).collect();
                let i = if at > usize::MAX - 8 { n - 1 - (usize::MAX - at).min(n - 1) } else { at % n };
                v[i] = c;
                v.into_iter().collect()
            }),
    ]
}

/// Like `arg_string`, sometimes with an LF or NUL somewhere.
pub fn arg_string_maybe_rejected(max_len: usize) -> impl Strategy<Value = String> {
    prop_oneof![
        9 => arg_string(max_len),
        1 => (arg_string(12), prop_oneof![Just('\n'), Just('\0')], arg_string(12), 0..3u8).prop_map(
            |(a, c, b, pos)| match pos {
                0 => format!("{c}{a}{b}"),
                1 => format!("{a}{c}{b}"),
                _ => format!("{a}{b}{c}"),
            }
        ),
    ]
}

/// Command names the builder accepts (letter first after fix F-G, never a list keyword).
pub fn valid_name() -> impl Strategy<Value = String> {
    "[A-Za-z][A-Za-z_]{0,19}".prop_filter("list keyword prefix", |s| !s.starts_with("command_list"))
}

// ---- the asynchronous connection as a second sender ---------------------------------------------------

/// In-memory async transport: serves a greeting, accepts at most `max_write` bytes per write.
pub struct AsyncSink {
    input: Vec<u8>,
    pos: usize,
    pub output: Vec<u8>,
    max_write: usize,
    pub writes: usize,
    /// report `is_write_vectored()` and take vectored writes like a socket (bytes from the buffers in
    /// order, a short write may end inside any of them)
    vectored: bool,
    /// that many of the next writes return Pending without taking a byte (and without waking)
    stall_writes: u32,
}

impl tokio::io::AsyncRead for AsyncSink {
    fn poll_read(
        mut self: std::pin::Pin<&mut Self>,
        _cx: &mut std::task::Context<'_>,
        buf: &mut tokio::io::ReadBuf<'_>,
    ) -> std::task::Poll<io::Result<()>> {
        let n = (self.input.len() - self.pos).min(buf.remaining());
        let pos = self.pos;
        buf.put_slice(&self.input[pos..pos + n]);
        self.pos += n;
        std::task::Poll::Ready(Ok(()))
    }
}

impl tokio::io::AsyncWrite for AsyncSink {
    fn poll_write(mut self: std::pin::Pin<&mut Self>, _cx: &mut std::task::Context<'_>, data: &[u8]) -> std::task::Poll<io::Result<usize>> {
        if self.stall_writes > 0 {
            self.stall_writes -= 1;
            return std::task::Poll::Pending;
        }
        let n = data.len().min(self.max_write.max(1));
        self.output.extend_from_slice(&data[..n]);
        self.writes += 1;
        std::task::Poll::Ready(Ok(n))
    }
    fn poll_write_vectored(
        self: std::pin::Pin<&mut Self>,
        cx: &mut std::task::Context<'_>,
        bufs: &[io::IoSlice<'_>],
    ) -> std::task::Poll<io::Result<usize>> {
        let joined: Vec<u8> = bufs.iter().flat_map(|b| b.iter().copied()).collect();
        self.poll_write(cx, &joined)
    }
    fn is_write_vectored(&self) -> bool {
        self.vectored
    }
    fn poll_flush(self: std::pin::Pin<&mut Self>, _cx: &mut std::task::Context<'_>) -> std::task::Poll<io::Result<()>> {
        std::task::Poll::Ready(Ok(()))
    }
    fn poll_shutdown(self: std::pin::Pin<&mut Self>, _cx: &mut std::task::Context<'_>) -> std::task::Poll<io::Result<()>> {
        std::task::Poll::Ready(Ok(()))
    }
}

thread_local! {
    static VECTORED: std::cell::Cell<bool> = const { std::cell::Cell::new(false) };
}

fn async_connection(max_write: usize) -> mpd_protocol::AsyncConnection<AsyncSink> {
    let refused = crate::core::send_history();
    let stall = u32::from(refused == 4 || refused == 5);
    let io = AsyncSink { input: b"OK MPD 0.23.5\n".to_vec(), pos: 0, output: Vec::new(), max_write, writes: 0, vectored: VECTORED.with(|v| v.get()), stall_writes: stall };
    let mut c = crate::seg::block_on(mpd_protocol::AsyncConnection::connect(io)).expect("greeting accepted");
    // send histories 4 and 5: the first send on this connection finds the transport not ready and its
    // future is dropped before a byte was taken (a caller that timed out / was cancelled)
    if stall == 1 {
        use std::{future::Future, task::{Context, Poll, Waker}};
        let mut cx = Context::from_waker(Waker::noop());
        if refused == 4 {
            let mut fut = std::pin::pin!(c.send_list(CommandList::new(Command::new("stats")).command(Command::new("outputs"))));
            assert!(matches!(fut.as_mut().poll(&mut cx), Poll::Pending), "harness: stalled write must be pending");
        } else {
            let mut fut = std::pin::pin!(c.send(Command::new("stats")));
            assert!(matches!(fut.as_mut().poll(&mut cx), Poll::Pending), "harness: stalled write must be pending");
        }
    }
    c
}

/// Bytes `AsyncConnection::send` writes for `cmd` over a transport taking `max_write` bytes per write.
pub fn async_sent_bytes(cmd: Command, max_write: usize) -> Vec<u8> {
    let mut c = async_connection(max_write);
    let bytes = async_prelude(&mut c);
    crate::seg::block_on(c.send(cmd)).expect("write to sink cannot fail");
    strip_prelude(c.into_inner().output, &bytes)
}

fn async_prelude(c: &mut mpd_protocol::AsyncConnection<AsyncSink>) -> Vec<u8> {
    let (before, bytes) = prelude();
    for (cmd, l) in before {
        if let Some(x) = cmd {
            crate::seg::block_on(c.send(x)).expect("write to sink cannot fail");
        }
        if let Some(l) = l {
            crate::seg::block_on(c.send_list(l)).expect("write to sink cannot fail");
        }
    }
    bytes
}

/// Bytes `AsyncConnection::send_list` writes for `list`.
pub fn async_sent_list_bytes(list: CommandList, max_write: usize) -> Vec<u8> {
    let mut c = async_connection(max_write);
    let bytes = async_prelude(&mut c);
    crate::seg::block_on(c.send_list(list)).expect("write to sink cannot fail");
    strip_prelude(c.into_inner().output, &bytes)
}

/// Both flavours must put the same bytes on the wire, whatever the transport accepts per write.
pub fn both_flavours_agree(cmd: &Command, list: Option<&CommandList>, max_write: usize) -> Result<(), String> {
    // the transport's write limit also decides whether it takes vectored writes (both kinds occur)
    VECTORED.with(|v| v.set(max_write % 2 == 1));
    let r = both_flavours_agree_inner(cmd, list, max_write);
    VECTORED.with(|v| v.set(false));
    r.map_err(|e| if max_write % 2 == 1 { format!("{e} [transport with vectored writes]") } else { e })
}

fn both_flavours_agree_inner(cmd: &Command, list: Option<&CommandList>, max_write: usize) -> Result<(), String> {
    let b = sent_bytes(cmd.clone());
    let a = async_sent_bytes(cmd.clone(), max_write);
    if a != b {
        return Err(format!(
            "AsyncConnection::send wrote {:?} (transport accepts {max_write} byte(s) per write), Connection::send wrote {:?}",
            crate::core::escape_bytes(&a),
            crate::core::escape_bytes(&b)
        ));
    }
    if let Some(l) = list {
        let b = sent_list_bytes(l.clone());
        let a = async_sent_list_bytes(l.clone(), max_write);
        if a != b {
            return Err(format!(
                "AsyncConnection::send_list wrote {:?} (transport accepts {max_write} byte(s) per write), Connection::send_list wrote {:?}",
                crate::core::escape_bytes(&a),
                crate::core::escape_bytes(&b)
            ));
        }
    }
    Ok(())
}
