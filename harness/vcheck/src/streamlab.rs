//! Stream lab: drives the real blocking / async connection over a segmenting transport and turns
//! what it returns into plain observation values (DESIGN.md 3.3-3.5).

use std::io;

use mpd_protocol::{response::Response, AsyncConnection, Connection, MpdProtocolError};
use serde::{Deserialize, Serialize};

use crate::{
    core::{catch, B},
    seg::{block_on, AsyncChunkReader, ChunkReader, ChunkState, Seg},
    wire::{OErr, OFrame, OResp},
};

pub const GREETING: &[u8] = b"OK MPD 0.23.5\n";

#[derive(Clone, Copy, Debug, PartialEq, Eq, Serialize, Deserialize, Hash)]
pub enum Flavour {
    Blocking,
    Async,
    /// async, with a spurious Pending before every read
    AsyncPending,
    /// blocking, every read after the greeting preceded by a transient WouldBlock error; the harness
    /// calls `receive` again after such an error (a caller with a read timeout)
    BlockingInterrupted,
    /// async, every `receive` future that returns Pending is dropped and a new one is created (what
    /// `select!`/`timeout` around `receive` do)
    AsyncCancelled,
}

pub const FLAVOURS: [Flavour; 3] = [Flavour::Blocking, Flavour::Async, Flavour::AsyncPending];
/// including the interrupted / cancelled ways of calling `receive`
pub const ALL_FLAVOURS: [Flavour; 5] =
    [Flavour::Blocking, Flavour::Async, Flavour::AsyncPending, Flavour::BlockingInterrupted, Flavour::AsyncCancelled];

#[derive(Clone, Debug, PartialEq, Eq, Serialize, Deserialize, Hash)]
pub enum Terminal {
    CleanEof,
    Invalid,
    /// io::ErrorKind rendered with Debug
    Io(String),
    /// the code under test read more often than `bytes + chunks + 64` times
    ReadBoundExceeded,
    /// receive kept returning responses without consuming input
    NoProgress,
    /// (only in `Obs::after_terminal`) a further receive call returned a response
    Response,
    Panic(String),
}

#[derive(Clone, Debug, PartialEq, Eq)]
pub struct Obs {
    pub version: Option<String>,
    pub responses: Vec<OResp>,
    pub terminal: Terminal,
    pub reads: usize,
    /// panic message if one of the extra receive calls after the terminal outcome panicked
    pub after_terminal_panic: Option<String>,
    /// what the extra receive calls after the terminal outcome returned ("Response" or a terminal)
    pub after_terminal: Vec<Terminal>,
    /// inconsistencies between accessors of one Response (successful_frames/is_error/is_success)
    pub accessor_mismatch: Option<String>,
}

pub fn observe_response(r: &Response) -> (OResp, Option<String>) {
    let mut out = OResp::default();
    for item in r.frames() {
        match item {
            Ok(f) => out.frames.push(OFrame {
                fields: f.fields().map(|(k, v)| (k.to_string(), v.to_string())).collect(),
                binary: f.binary().map(B::from),
            }),
            Err(e) => {
                out.error = Some(OErr {
                    code: e.code,
                    index: e.command_index,
                    command: e.current_command.as_deref().map(str::to_string),
                    message: e.message.to_string(),
                })
            }
        }
    }
    let mut mismatch = None;
    if r.successful_frames() != out.frames.len()
        || r.is_error() != out.error.is_some()
        || r.is_success() == out.error.is_some()
    {
        mismatch = Some(format!(
            "successful_frames()={} is_error()={} but frames() yields {} frames, error {}",
            r.successful_frames(),
            r.is_error(),
            out.frames.len(),
            out.error.is_some()
        ));
    }
    (out, mismatch)
}

fn terminal_of(e: &MpdProtocolError) -> Terminal {
    match e {
        MpdProtocolError::InvalidMessage => Terminal::Invalid,
        MpdProtocolError::Io(e) => Terminal::Io(format!("{:?}", e.kind())),
    }
}

pub fn eof() -> Terminal {
    Terminal::Io(format!("{:?}", io::ErrorKind::UnexpectedEof))
}

fn state(greeting: &[u8], stream: &[u8], seg: &Seg) -> ChunkState {
    let mut data = greeting.to_vec();
    data.extend_from_slice(stream);
    let cuts = seg.cut_points(greeting.len(), stream.len());
    ChunkState::new(data, cuts)
}

/// Connect (over `greeting`) and receive until a terminal outcome. `extra` further receive calls
/// are made afterwards (their only requirement: return without panicking).
pub fn run(flavour: Flavour, greeting: &[u8], stream: &[u8], seg: &Seg, extra: usize) -> Obs {
    run_with(flavour, greeting, stream, seg, extra, None)
}

pub fn run_with(
    flavour: Flavour,
    greeting: &[u8],
    stream: &[u8],
    seg: &Seg,
    extra: usize,
    fail_at_end: Option<io::ErrorKind>,
) -> Obs {
    run_slowly(flavour, greeting, stream, seg, extra, fail_at_end, &[])
}

/// `sleeps`: (read index, milliseconds of REAL time that pass before that read returns)
pub fn run_slowly(
    flavour: Flavour,
    greeting: &[u8],
    stream: &[u8],
    seg: &Seg,
    extra: usize,
    fail_at_end: Option<io::ErrorKind>,
    sleeps: &[(usize, u64)],
) -> Obs {
    let mut st = state(greeting, stream, seg);
    st.fail_at_end = fail_at_end;
    st.sleep_before_read = sleeps.to_vec();
    let max_responses = stream.len() / 3 + 4;
    let mut obs = Obs {
        version: None,
        responses: Vec::new(),
        terminal: Terminal::CleanEof,
        reads: 0,
        after_terminal_panic: None,
        after_terminal: Vec::new(),
        accessor_mismatch: None,
    };

    match flavour {
        Flavour::Blocking | Flavour::BlockingInterrupted => {
            if flavour == Flavour::BlockingInterrupted {
                st.interrupt_from = Some(greeting.len().max(1));
                st.read_limit *= 2;
            }
            let res = catch(|| {
                let mut conn = match Connection::connect(ChunkReader(st)) {
                    Ok(c) => c,
                    Err(e) => return (terminal_of(&e), None),
                };
                obs.version = Some(conn.protocol_version().to_string());
                // interrupted flavour: a second, unrelated connection is used on the same thread
                // whenever the first one is interrupted (it receives one more line of a response of
                // its own and is interrupted as well)
                let mut other = (flavour == Flavour::BlockingInterrupted).then(|| Connection::connect(NoiseReader { greeted: false, give: true, at: 0 }).expect("noise greeting"));
                let mut interruptions = 0u32;
                let mut move_next = false;
                let chatty = flavour == Flavour::BlockingInterrupted;
                let salt = if chatty { crate::core::stable_hash(stream) } else { 0 };
                let terminal = loop {
                    if let Some(o) = other.as_mut() {
                        let _ = o.receive();
                    }
                    // now and then the connection is handed to another thread for one call
                    // ... or the call is made from a destructor while the thread unwinds (clean-up code)
                    let received = if std::mem::take(&mut move_next) {
                        crate::core::on_other_thread(|| conn.receive())
                    } else if chatty && salt & 7 == 3 && (interruptions == 1 || interruptions == 3) {
                        crate::core::while_unwinding(|| conn.receive())
                    } else {
                        conn.receive()
                    };
                    match received {
                        Ok(Some(r)) => {
                            let (o, mm) = observe_response(&r);
                            obs.responses.push(o);
                            if obs.accessor_mismatch.is_none() {
                                obs.accessor_mismatch = mm;
                            }
                            if obs.responses.len() > max_responses {
                                break Terminal::NoProgress;
                            }
                            // a pipelining application sends its next request now (the bytes of later
                            // responses may already sit in the receive buffer)
                            if chatty && obs.responses.len() <= 40 {
                                let _ = conn.send(chatter(salt, obs.responses.len() as u64));
                            }
                        }
                        Ok(None) => break Terminal::CleanEof,
                        Err(MpdProtocolError::Io(e)) if flavour == Flavour::BlockingInterrupted && e.kind() == io::ErrorKind::WouldBlock => {
                            // while it waits the application talks (what a caller cancelling `idle`
                            // does): sending must not disturb the response in progress
                            interruptions += 1;
                            match interruptions % 4 {
                                1 if interruptions > 4 && interruptions < 60 => drop(conn.send(chatter(salt, 1000 + u64::from(interruptions)))),
                                1 => drop(conn.send(mpd_protocol::Command::new("noidle"))),
                                3 => drop(conn.send_list(mpd_protocol::CommandList::new(mpd_protocol::Command::new("status")).command(mpd_protocol::Command::new("idle")))),
                                _ => {}
                            }
                            // (one connection in 32: a thread per call is expensive)
                            move_next = salt & 31 == 0 && (interruptions == 2 || interruptions == 7);
                            continue;
                        }
                        Err(e) => break terminal_of(&e),
                    }
                };
                (terminal, Some(conn))
            });
            match res {
                Err(p) => obs.terminal = Terminal::Panic(p),
                Ok((t, conn)) => {
                    obs.terminal = t;
                    if let Some(mut conn) = conn {
                        if obs.terminal != Terminal::NoProgress {
                            let mut later = Vec::new();
                            let r = catch(|| {
                                for _ in 0..extra {
                                    later.push(match conn.receive() {
                                        Ok(Some(_)) => Terminal::Response,
                                        Ok(None) => Terminal::CleanEof,
                                        Err(e) => terminal_of(&e),
                                    });
                                }
                            });
                            obs.after_terminal = later;
                            if let Err(p) = r {
                                obs.after_terminal_panic = Some(p);
                            }
                        }
                        let io = conn.into_inner();
                        obs.reads = io.0.reads;
                        if io.0.bound_exceeded {
                            obs.terminal = Terminal::ReadBoundExceeded;
                        }
                    }
                }
            }
        }
        Flavour::Async | Flavour::AsyncPending | Flavour::AsyncCancelled => {
            let pending = flavour != Flavour::Async;
            let cancel = flavour == Flavour::AsyncCancelled;
            let res = catch(|| {
                block_on(async {
                    let mut conn = match AsyncConnection::connect(AsyncChunkReader::new(st, pending)).await {
                        Ok(c) => c,
                        Err(e) => return (terminal_of(&e), None),
                    };
                    obs.version = Some(conn.protocol_version().to_string());
                    let salt = if cancel { crate::core::stable_hash(stream) } else { 0 };
                    let terminal = loop {
                        let received = if cancel { receive_cancelling(&mut conn, salt) } else { conn.receive().await };
                        match received {
                            Ok(Some(r)) => {
                                let (o, mm) = observe_response(&r);
                                obs.responses.push(o);
                                if obs.accessor_mismatch.is_none() {
                                    obs.accessor_mismatch = mm;
                                }
                                if obs.responses.len() > max_responses {
                                    break Terminal::NoProgress;
                                }
                                if cancel && obs.responses.len() <= 40 {
                                    let _ = conn.send(chatter(salt, obs.responses.len() as u64)).await;
                                }
                            }
                            Ok(None) => break Terminal::CleanEof,
                            Err(e) => break terminal_of(&e),
                        }
                    };
                    (terminal, Some(conn))
                })
            });
            match res {
                Err(p) => obs.terminal = Terminal::Panic(p),
                Ok((t, conn)) => {
                    obs.terminal = t;
                    if let Some(mut conn) = conn {
                        if obs.terminal != Terminal::NoProgress {
                            let mut later = Vec::new();
                            let r = catch(|| {
                                block_on(async {
                                    for _ in 0..extra {
                                        later.push(match conn.receive().await {
                                            Ok(Some(_)) => Terminal::Response,
                                            Ok(None) => Terminal::CleanEof,
                                            Err(e) => terminal_of(&e),
                                        });
                                    }
                                })
                            });
                            obs.after_terminal = later;
                            if let Err(p) = r {
                                obs.after_terminal_panic = Some(p);
                            }
                        }
                        let io = conn.into_inner();
                        obs.reads = io.st.reads;
                        if io.st.bound_exceeded {
                            obs.terminal = Terminal::ReadBoundExceeded;
                        }
                    }
                }
            }
        }
    }
    obs
}

/// MPD's command vocabulary: what an application may send while responses are still being received
/// (pipelining, `noidle`, settings such as `binarylimit`). Sending never influences what `receive`
/// returns for the bytes the peer sent.
const VOCABULARY: [&str; 112] = [
    "add", "addid", "addtagid", "albumart", "binarylimit", "channels", "clear", "clearerror", "cleartagid", "close", "commands", "config",
    "consume", "count", "crossfade", "currentsong", "decoders", "delete", "deleteid", "delpartition", "disableoutput", "enableoutput", "find",
    "findadd", "getfingerprint", "getvol", "idle", "kill", "list", "listall", "listallinfo", "listfiles", "listmounts", "listneighbors",
    "listpartitions", "listplaylist", "listplaylistinfo", "listplaylists", "load", "lsinfo", "mixrampdb", "mixrampdelay", "mount", "move",
    "moveid", "moveoutput", "newpartition", "next", "noidle", "notcommands", "outputs", "outputset", "partition", "password", "pause", "ping",
    "play", "playid", "playlist", "playlistadd", "playlistclear", "playlistdelete", "playlistfind", "playlistid", "playlistinfo", "playlistlength",
    "playlistmove", "playlistsearch", "plchanges", "plchangesposid", "previous", "prio", "prioid", "protocol", "random", "rangeid", "readcomments",
    "readmessages", "readpicture", "rename", "repeat", "replay_gain_mode", "replay_gain_status", "rescan", "rm", "save", "search", "searchadd",
    "searchaddpl", "searchcount", "seek", "seekcur", "seekid", "sendmessage", "setvol", "shuffle", "single", "stats", "status", "sticker",
    "stickernames", "stop", "subscribe", "swap", "swapid", "tagtypes", "toggleoutput", "unmount", "unsubscribe", "update", "urlhandlers", "volume",
];

/// The `k`-th thing the application says on a connection whose peer sends `salt`-identified bytes: a
/// pure function of the case, spread over the vocabulary x a few argument shapes.
fn chatter(salt: u64, k: u64) -> mpd_protocol::Command {
    let x = crate::core::splitmix64(salt ^ k.wrapping_mul(0x9E37_79B9_7F4A_7C15));
    // every other remark is one of the few commands an idle-based client actually interleaves
    let name = if x & 1 == 0 { ["noidle", "idle", "binarylimit", "ping", "status"][(x >> 1) as usize % 5] } else { VOCABULARY[(x >> 8) as usize % VOCABULARY.len()] };
    let mut c = mpd_protocol::Command::new(name);
    match (x >> 40) % 6 {
        0 => {}
        1 => drop(c.add_argument("1")),
        2 => drop(c.add_argument("8192")),
        3 => drop(c.add_argument("100000000")),
        4 => drop(c.add_argument("a b")),
        _ => {
            let _ = c.add_argument("uri/of a.song");
            let _ = c.add_argument("0");
        }
    }
    c
}

/// Polls `receive` once; whenever it is Pending the future is dropped and a fresh one created. In
/// between, a second unrelated connection on the same thread gets the same treatment (it receives one
/// more line of a never-ending response of its own).
fn receive_cancelling(conn: &mut AsyncConnection<AsyncChunkReader>, salt: u64) -> Result<Option<Response>, MpdProtocolError> {
    use std::{future::Future, task::{Context, Poll, Waker}};
    thread_local! {
        static OTHER: std::cell::RefCell<Option<AsyncConnection<NoiseReader>>> = const { std::cell::RefCell::new(None) };
    }
    let mut cx = Context::from_waker(Waker::noop());
    for attempt in 0..50_000_000u64 {
        OTHER.with(|o| {
            let mut o = o.borrow_mut();
            if o.is_none() {
                *o = Some(crate::seg::block_on(AsyncConnection::connect(NoiseReader { greeted: false, give: true, at: 0 })).expect("noise greeting"));
            }
            let c = o.as_mut().unwrap();
            let mut fut = std::pin::pin!(c.receive());
            let _ = fut.as_mut().poll(&mut cx);
        });
        // attempts 3 and 8 are made on another thread (the connection is Send)
        let polled = if salt & 7 == 3 && (attempt == 1 || attempt == 3) {
            // polled from a destructor while the thread unwinds
            crate::core::while_unwinding(|| {
                let mut fut = std::pin::pin!(conn.receive());
                fut.as_mut().poll(&mut cx)
            })
        } else if salt & 31 == 0 && (attempt == 2 || attempt == 7) {
            crate::core::on_other_thread(|| {
                let mut cx = Context::from_waker(Waker::noop());
                let mut fut = std::pin::pin!(conn.receive());
                fut.as_mut().poll(&mut cx)
            })
        } else {
            let mut fut = std::pin::pin!(conn.receive());
            fut.as_mut().poll(&mut cx)
        };
        if let Poll::Ready(r) = polled {
            // a fresh noise connection for the next case on this thread (its parked response grows)
            OTHER.with(|o| *o.borrow_mut() = None);
            return r;
        }
        // between two attempts the application sends something (the `idle` / `noidle` pattern)
        match attempt % 4 {
            0 => drop(crate::seg::block_on(conn.send(mpd_protocol::Command::new("noidle")))),
            2 => drop(crate::seg::block_on(conn.send_list(mpd_protocol::CommandList::new(mpd_protocol::Command::new("status")).command(mpd_protocol::Command::new("idle"))))),
            _ => {}
        }
    }
    panic!("harness: receive never completes");
}

/// Transport of the second connection: a greeting, then "noise: 1" lines of a response that never
/// ends, one per read; every other read is WouldBlock (blocking) / Pending (async).
pub struct NoiseReader {
    greeted: bool,
    give: bool,
    at: usize,
}

impl NoiseReader {
    fn serve(&mut self, room: usize) -> Option<&'static [u8]> {
        const LINE: &[u8] = b"noise: 1\n";
        if !self.greeted {
            self.greeted = true;
            return Some(GREETING);
        }
        if self.at == 0 {
            self.give = !self.give;
            if self.give {
                return None;
            }
        }
        let n = (LINE.len() - self.at).min(room);
        let out = &LINE[self.at..self.at + n];
        self.at = (self.at + n) % LINE.len();
        Some(out)
    }
}

impl io::Read for NoiseReader {
    fn read(&mut self, buf: &mut [u8]) -> io::Result<usize> {
        match self.serve(buf.len()) {
            Some(b) => {
                buf[..b.len()].copy_from_slice(b);
                Ok(b.len())
            }
            None => Err(io::Error::new(io::ErrorKind::WouldBlock, "harness: noise connection has nothing more right now")),
        }
    }
}

impl io::Write for NoiseReader {
    fn write(&mut self, buf: &[u8]) -> io::Result<usize> {
        Ok(buf.len())
    }
    fn flush(&mut self) -> io::Result<()> {
        Ok(())
    }
}

impl tokio::io::AsyncRead for NoiseReader {
    fn poll_read(mut self: std::pin::Pin<&mut Self>, _cx: &mut std::task::Context<'_>, buf: &mut tokio::io::ReadBuf<'_>) -> std::task::Poll<io::Result<()>> {
        match self.serve(buf.remaining()) {
            Some(b) => {
                buf.put_slice(b);
                std::task::Poll::Ready(Ok(()))
            }
            None => std::task::Poll::Pending,
        }
    }
}

impl tokio::io::AsyncWrite for NoiseReader {
    fn poll_write(self: std::pin::Pin<&mut Self>, _cx: &mut std::task::Context<'_>, data: &[u8]) -> std::task::Poll<io::Result<usize>> {
        std::task::Poll::Ready(Ok(data.len()))
    }
    fn poll_flush(self: std::pin::Pin<&mut Self>, _cx: &mut std::task::Context<'_>) -> std::task::Poll<io::Result<()>> {
        std::task::Poll::Ready(Ok(()))
    }
    fn poll_shutdown(self: std::pin::Pin<&mut Self>, _cx: &mut std::task::Context<'_>) -> std::task::Poll<io::Result<()>> {
        std::task::Poll::Ready(Ok(()))
    }
}

/// Short rendering of an observation for failure messages.
pub fn brief(o: &Obs) -> String {
    let mut s = format!("{} response(s), terminal {:?}", o.responses.len(), o.terminal);
    if let Some(v) = &o.version {
        if v != "0.23.5" {
            s.push_str(&format!(", version {v:?}"));
        }
    } else {
        s.push_str(", connect failed");
    }
    s
}

/// First difference between two observation sequences, for messages.
pub fn diff(a: &Obs, b: &Obs) -> Option<String> {
    if a.version != b.version {
        return Some(format!("version {:?} vs {:?}", a.version, b.version));
    }
    for (i, (x, y)) in a.responses.iter().zip(&b.responses).enumerate() {
        if x != y {
            let xs = format!("{x:?}");
            let ys = format!("{y:?}");
            return Some(format!(
                "response {i} differs: {} vs {}",
                xs.chars().take(400).collect::<String>(),
                ys.chars().take(400).collect::<String>()
            ));
        }
    }
    if a.responses.len() != b.responses.len() {
        return Some(format!("{} vs {} responses ({:?} vs {:?})", a.responses.len(), b.responses.len(), a.terminal, b.terminal));
    }
    if a.terminal != b.terminal {
        return Some(format!("terminal outcome {:?} vs {:?}", a.terminal, b.terminal));
    }
    None
}

/// What the connection has been through before the reply under test arrives on it: the typed
/// decoders are checked on connections with a past, not only on fresh ones.
#[derive(Clone, Debug, Default, PartialEq, Eq, Serialize, Deserialize)]
pub struct History {
    /// that many distinct field names were received earlier (they sit in the connection's key cache)
    pub distinct_keys: u16,
    /// the field names of the reply under test were received earlier (with other values)
    pub same_keys_first: bool,
    /// an earlier response contained one line of that many KiB (the receive buffer has grown)
    pub blowup_kib: u16,
}

impl History {
    pub fn is_empty(&self) -> bool {
        *self == History::default()
    }

    /// (bytes of the earlier responses, how many responses these are)
    fn render(&self, upcoming: &[u8]) -> (Vec<u8>, usize) {
        let mut out = Vec::new();
        let mut n = 0;
        if self.distinct_keys > 0 {
            for i in 0..self.distinct_keys as usize {
                let c = |d: usize| (b'a' + (d % 26) as u8) as char;
                out.extend_from_slice(format!("hq{}{}{}: {i}\n", c(i / 676), c(i / 26), c(i)).as_bytes());
            }
            out.extend_from_slice(b"OK\n");
            n += 1;
        }
        if self.same_keys_first {
            let mut seen: Vec<&[u8]> = Vec::new();
            for line in upcoming.split(|b| *b == b'\n') {
                if let Some(p) = line.windows(2).position(|w| w == b": ") {
                    let k = &line[..p];
                    if !k.is_empty() && k != b"binary" && k != b"OK" && k != b"ACK" && k != b"list_OK" && k.iter().all(|b| b.is_ascii_alphabetic() || *b == b'_' || *b == b'-') && !seen.contains(&k) {
                        seen.push(k);
                        out.extend_from_slice(k);
                        out.extend_from_slice(b": earlier\n");
                    }
                }
            }
            out.extend_from_slice(b"OK\n");
            n += 1;
        }
        if self.blowup_kib > 0 {
            out.extend_from_slice(b"blow: ");
            out.resize(out.len() + self.blowup_kib as usize * 1024, b'x');
            out.extend_from_slice(b"\nOK\n");
            n += 1;
        }
        (out, n)
    }
}

pub fn history_strategy() -> impl proptest::strategy::Strategy<Value = History> {
    use proptest::prelude::*;
    prop_oneof![
        40 => Just(History::default()),
        12 => (prop_oneof![1..40u16, 250..262u16, 1020..1030u16, 1..1500u16], any::<bool>()).prop_map(|(distinct_keys, same_keys_first)| History { distinct_keys, same_keys_first, blowup_kib: 0 }),
        8 => Just(History { distinct_keys: 0, same_keys_first: true, blowup_kib: 0 }),
        1 => (prop_oneof![3 => Just(70u16), 1 => Just(1100), 1 => Just(2100), 1 => Just(4200)], 0..300u16, any::<bool>()).prop_map(|(blowup_kib, distinct_keys, same_keys_first)| History { distinct_keys, same_keys_first, blowup_kib }),
    ]
}

thread_local! {
    static HISTORY: std::cell::RefCell<History> = std::cell::RefCell::new(History::default());
}

/// Runs `f` with `parse_all` putting `h` in front of every stream it parses (on the same connection).
pub fn with_history<T>(h: &History, f: impl FnOnce() -> T) -> T {
    struct Reset;
    impl Drop for Reset {
        fn drop(&mut self) {
            HISTORY.with(|c| *c.borrow_mut() = History::default());
        }
    }
    HISTORY.with(|c| *c.borrow_mut() = h.clone());
    let _reset = Reset;
    f()
}

/// A case plus the history of the connection it is decoded on (flattened: replay files written before
/// the history dimension existed still load).
#[derive(Clone, Debug, Serialize, Deserialize)]
pub struct OnUsedConnection<C> {
    #[serde(flatten)]
    pub case: C,
    #[serde(default)]
    pub history: History,
    /// picks how the command object whose `response` does the decoding was built (windows, ranges,
    /// sort keys, ...): the parameters a command was sent with must not change how its reply decodes
    #[serde(default)]
    pub variant: u32,
}

pub fn on_used_connection<C: std::fmt::Debug + Clone + 'static>(
    inner: impl proptest::strategy::Strategy<Value = C> + 'static,
) -> proptest::strategy::BoxedStrategy<OnUsedConnection<C>> {
    use proptest::prelude::*;
    (inner, history_strategy(), prop_oneof![2 => Just(0u32), 3 => 0..64u32])
        .prop_map(|(case, history, variant)| OnUsedConnection { case, history, variant })
        .boxed()
}

/// Typed conversions that FAIL, made on the calling thread just before the conversion under test: a
/// rejected reply must leave nothing behind (in statics, thread-locals, pools) that shows in the next
/// conversion on the same thread. Every result is ignored; only panics propagate.
pub fn fail_some_typed_conversions_first() {
    use mpd_client::commands::{self as c, Command as _};
    let frame = |wire: &str| -> Option<mpd_protocol::response::Frame> {
        let st = state(GREETING, wire.as_bytes(), &Seg::Whole);
        let mut conn = Connection::connect(ChunkReader(st)).ok()?;
        conn.receive().ok()??.into_single_frame().ok()
    };
    // a listing that breaks off in the middle of its second song
    let listing = "file: earlier/one.mp3\nTitle: Earlier One\nArtist: Left Over\nduration: 12.5\nPos: 0\nId: 70\nfile: earlier/two.mp3\nTitle: Half Built\nAlbum: Residue\nduration: n/a\nOK\n";
    if let Some(f) = frame(listing) {
        let _ = c::Queue.response(f);
    }
    if let Some(f) = frame(listing) {
        let _ = c::Find::new(mpd_client::filter::Filter::tag_exists(mpd_client::tag::Tag::Title)).response(f);
    }
    if let Some(f) = frame(listing) {
        let _ = c::CurrentSong.response(f);
    }
    if let Some(f) = frame(listing) {
        let _ = c::GetPlaylist("residue").response(f);
    }
    if let Some(f) = frame("directory: earlier\nfile: earlier/three.mp3\nTime: x\nOK\n") {
        let _ = c::ListAllIn::root().response(f);
    }
    for (wire, which) in [
        ("volume: 40\nrepeat: 1\nstate: play\nsong: 3\nelapsed: oops\nOK\n", 0u8),
        ("uptime: 5\nplaytime: never\nOK\n", 1),
        ("songs: 3\nplaytime: never\nOK\n", 2),
        ("Album: Residue\nsongs: many\nplaytime: 1\nOK\n", 3),
        ("playlist: residue\nOK\n", 4),
        ("sticker: residue\nOK\n", 5),
        ("file: earlier/one.mp3\nsticker: novalue\nOK\n", 6),
        ("channel: residue\nOK\n", 7),
        ("updating_db: soon\nOK\n", 8),
        ("Id: none\nOK\n", 9),
        ("size: 10\nOK\n", 10),
    ] {
        let Some(f) = frame(wire) else { continue };
        match which {
            0 => drop(c::Status.response(f)),
            1 => drop(c::Stats.response(f)),
            2 => drop(c::Count::new(mpd_client::filter::Filter::tag_exists(mpd_client::tag::Tag::Title)).response(f)),
            3 => drop(c::CountGrouped::new(mpd_client::tag::Tag::Album).response(f)),
            4 => drop(c::GetPlaylists.response(f)),
            5 => drop(c::StickerGet::new("u", "n").response(f)),
            6 => drop(c::StickerFind::new("", "n").response(f)),
            7 => drop(c::ReadChannelMessages.response(f)),
            8 => drop(c::Update::new().response(f)),
            9 => drop(c::Add::uri("u").response(f)),
            _ => drop(c::AlbumArt::new("u").response(f)),
        }
    }
}

impl<C> OnUsedConnection<C> {
    /// every third variant: some failing typed conversions are made on this thread first
    pub fn after_failed_conversions(&self) -> bool {
        self.variant % 3 == 1
    }

    pub fn classify(&self, r: &mut crate::core::CaseResult) {
        r.class_if(self.after_failed_conversions(), "after_failed_conversions_on_the_thread");
        r.class_if(!self.history.is_empty(), "connection_with_history");
        r.class_if(self.history.distinct_keys >= 255, "history_255plus_distinct_keys");
        r.class_if(self.history.same_keys_first, "history_same_keys_seen_before");
        r.class_if(self.history.blowup_kib >= 1024, "history_buffer_grown_past_1MiB");
        r.class_if(self.variant != 0, "command_built_with_parameters");
    }
}

/// Parse a complete, well-formed stream with the real blocking connection and hand out the real
/// `Response` objects (used where a check needs `Frame`s, not observations). The responses of the
/// thread's current `History` (if any) are received first on the same connection and dropped.
pub fn parse_all(stream: &[u8]) -> Result<Vec<Response>, String> {
    let h = HISTORY.with(|c| c.borrow().clone());
    let (mut full, skip) = if h.is_empty() { (Vec::new(), 0) } else { h.render(stream) };
    full.extend_from_slice(stream);
    let st = state(GREETING, &full, &Seg::Whole);
    let mut conn = Connection::connect(ChunkReader(st)).map_err(|e| format!("connect: {e:?}"))?;
    let mut out = Vec::new();
    loop {
        match conn.receive() {
            Ok(Some(r)) => out.push(r),
            Ok(None) => {
                if out.len() < skip {
                    return Err(format!("{} responses, but {skip} earlier ones were sent before the one under test", out.len()));
                }
                out.drain(..skip);
                return Ok(out);
            }
            Err(e) => return Err(format!("after {} responses ({skip} of them earlier traffic): {e:?}", out.len())),
        }
        if out.len() > stream.len() / 3 + 4 + skip {
            return Err("no progress".into());
        }
    }
}

/// Like `run`, but every response is obtained through the `command` / `command_list` helpers
/// (send + receive in one call); a clean end of stream is reported by them as UnexpectedEof.
pub fn run_via_helpers(flavour: Flavour, stream: &[u8], seg: &Seg, use_list: bool) -> Obs {
    use mpd_protocol::{Command, CommandList};
    let st = state(GREETING, stream, seg);
    let max_responses = stream.len() / 3 + 4;
    let mut obs = Obs { version: None, responses: Vec::new(), terminal: Terminal::CleanEof, reads: 0, after_terminal_panic: None, after_terminal: Vec::new(), accessor_mismatch: None };
    let list = || CommandList::new(Command::new("a")).command(Command::new("b"));
    let res = catch(|| match flavour {
        Flavour::Blocking => {
            let mut conn = match Connection::connect(ChunkReader(st)) {
                Ok(c) => c,
                Err(e) => return terminal_of(&e),
            };
            loop {
                let r = if use_list { conn.command_list(list()) } else { conn.command(Command::new("x")) };
                match r {
                    Ok(r) => {
                        obs.responses.push(observe_response(&r).0);
                        if obs.responses.len() > max_responses {
                            return Terminal::NoProgress;
                        }
                    }
                    Err(e) => return terminal_of(&e),
                }
            }
        }
        _ => block_on(async {
            let mut conn = match AsyncConnection::connect(AsyncChunkReader::new(st, flavour == Flavour::AsyncPending)).await {
                Ok(c) => c,
                Err(e) => return terminal_of(&e),
            };
            loop {
                let r = if use_list { conn.command_list(list()).await } else { conn.command(Command::new("x")).await };
                match r {
                    Ok(r) => {
                        obs.responses.push(observe_response(&r).0);
                        if obs.responses.len() > max_responses {
                            return Terminal::NoProgress;
                        }
                    }
                    Err(e) => return terminal_of(&e),
                }
            }
        }),
    });
    obs.terminal = match res {
        Ok(t) => t,
        Err(p) => Terminal::Panic(p),
    };
    obs
}
