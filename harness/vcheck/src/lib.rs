//! Verification harness for elomatreb/mpd_client — see /verif/DESIGN.md.
#![allow(clippy::type_complexity)]

pub mod core;
pub mod fuzzops;
pub mod mpdfilter;
pub mod mpdtok;
pub mod cmdlab;
pub mod refdec;
pub mod seg;
pub mod sim;
pub mod streamlab;
pub mod wire;
pub mod props;
