//! Oracles of the libFuzzer targets (DESIGN.md 3.9). Each takes raw fuzzer bytes, decodes them into
//! structured arguments and returns Err(reason) on a property violation. The same functions back the
//! `corpus` parts of C02/C09/C12/C06/C11, which replay saved inputs without libFuzzer.

use std::path::PathBuf;

use mpd_protocol::response::Frame;
use serde::{Deserialize, Serialize};

use crate::{
    core::{catch, verif_root, CaseResult, ExhaustivePart, Outcome, Part, Tier, B},
    props::{c06, c09, c11, c12},
    seg::Seg,
    streamlab::{self, diff, Flavour, FLAVOURS, GREETING},
};

#[derive(Debug, Clone, Serialize, Deserialize)]
pub struct Input {
    pub data: B,
}

fn seg_of(ctrl: &[u8], len: usize) -> Seg {
    match ctrl[1] % 5 {
        0 => Seg::Whole,
        1 => Seg::OneByte,
        2 => Seg::Chunk(ctrl[2] as usize + 1),
        3 => Seg::Chunk(4090 + ctrl[2] as usize % 12),
        _ => Seg::Cuts(vec![ctrl[2] as usize * len / 256, ctrl[3] as usize * len / 256]),
    }
}

/// C09 + C02: 4 control bytes (flavour, segmentation) + stream.
pub fn stream_target(data: &[u8]) -> Result<(), String> {
    if data.len() < 4 {
        return Ok(());
    }
    let (ctrl, stream) = data.split_at(4);
    let flavour = FLAVOURS[ctrl[0] as usize % 3];
    let seg = seg_of(ctrl, stream.len());
    c09::judge(stream, &seg, flavour).map_err(|e| format!("C09: {e}"))?;
    let reference = streamlab::run(Flavour::Blocking, GREETING, stream, &Seg::Whole, 0);
    let obs = streamlab::run(flavour, GREETING, stream, &seg, 0);
    if let Some(d) = diff(&reference, &obs) {
        return Err(format!("C02: {flavour:?} under {seg:?} differs from blocking/whole: {d}"));
    }
    // the same bytes as a greeting
    if stream.len() < 200 {
        c09::judge_connect(stream, &seg, flavour).map_err(|e| format!("C09 connect: {e}"))?;
    }
    Ok(())
}

/// C12: the bytes are a server reply; every frame through every decoder.
pub fn typed_target(data: &[u8]) -> Result<(), String> {
    if data.len() < 2 {
        return Ok(());
    }
    let sel = u16::from_le_bytes([data[0], data[1]]);
    let Ok(resps) = streamlab::parse_all(&data[2..]) else { return Ok(()) };
    for resp in resps {
        let frames: Vec<Frame> = resp.into_iter().filter_map(Result::ok).collect();
        let mut reach = c12::Reach::default();
        for (fi, f) in frames.iter().enumerate() {
            for d in 0..c12::DECODERS {
                catch(|| c12::decode(d, f.clone(), sel, &mut reach)).map_err(|p| format!("C12: decoder {d} panicked on frame {fi}: {p}"))?;
            }
        }
        catch(|| c12::decode_lists(&frames, sel, &mut reach)).map_err(|p| format!("C12: typed list over {} frames panicked: {p}", frames.len()))?;
    }
    Ok(())
}

/// C06 + C11: 0xFF-separated strings: first = argument passing styles, rest = arguments; the
/// first argument doubles as a filter value.
pub fn cmd_target(data: &[u8]) -> Result<(), String> {
    let mut parts = data.split(|b| *b == 0xff).map(|p| String::from_utf8_lossy(p).to_string());
    let how: Vec<u8> = parts.next().unwrap_or_default().bytes().collect();
    let args: Vec<String> = parts.take(8).collect();
    let case = c06::Case { name: "cmd".into(), how, list: if args.len() % 2 == 0 { None } else { Some((1, 1)) }, args: args.clone() };
    if let Outcome::Fail(e) = c06::check(&case).outcome {
        return Err(format!("C06: {e}"));
    }
    if let Some(v) = args.first() {
        if !v.contains('\n') && !v.contains('\0') && v.len() < 4000 {
            let leaf = c11::FSpec::New { tag: c11::TagSpec::Named((v.len() * 2111) as u16), op: crate::mpdfilter::Op::Equal, value: v.clone() };
            let spec = match args.len() % 3 {
                0 => leaf,
                1 => c11::FSpec::Negate(Box::new(leaf)),
                _ => c11::FSpec::And(Box::new(leaf), Box::new(c11::FSpec::Exists(c11::TagSpec::Any))),
            };
            let res = catch(|| c11::check(&c11::Case { spec, carrier: c11::Carrier::Find, list: None })).map_err(|p| format!("C11: panic {p}"))?;
            if let Outcome::Fail(e) = res.outcome {
                return Err(format!("C11: {e}"));
            }
        }
    }
    Ok(())
}

fn corpus_files(target: &str) -> Vec<PathBuf> {
    let mut v: Vec<PathBuf> = Vec::new();
    for dir in [
        verif_root().join("corpus").join(target),
        verif_root().join("fuzz").join("regressions").join(target),
        // crashes of the latest libFuzzer campaign (not committed)
        verif_root().join("fuzz").join("artifacts").join(target),
    ] {
        if let Ok(rd) = std::fs::read_dir(dir) {
            v.extend(rd.filter_map(|e| e.ok()).map(|e| e.path()).filter(|p| p.is_file()));
        }
    }
    v.sort();
    v
}

/// Replays the committed corpus of a fuzz target through its oracle (quick tier and replay files).
pub fn corpus_part(name: &'static str, target: &'static str, prefix: &'static str, f: fn(&[u8]) -> Result<(), String>) -> Box<dyn Part> {
    Box::new(ExhaustivePart {
        name,
        rule: "every file of the committed seed corpus and regression inputs of the libFuzzer target (corpus/<target>, fuzz/regressions/<target>) through the target's oracle; the thorough tier additionally runs libFuzzer with fixed -runs/-seed from that corpus and converts any crash into a replay file for this part; non-trivial = input longer than 8 bytes",
        space: Box::new(move |_t: Tier| {
            Box::new(corpus_files(target).into_iter().filter_map(|p| std::fs::read(p).ok()).map(|d| Input { data: B(d) }))
        }),
        check: Box::new(move |i: &Input| {
            let mut r = CaseResult::new();
            if i.data.len() > 8 {
                r.nontrivial();
            }
            if let Err(e) = f(&i.data) {
                if e.starts_with(prefix) {
                    r.fail(e);
                } else {
                    // the clause that fired belongs to the sibling property carried by the same
                    // target; that property's own check reports it
                    r.class("violates_sibling_property_of_same_target");
                }
            }
            r
        }),
    })
}

/// Writes the seed corpora (generator output + literals from the repository's tests) under
/// `<root>/corpus/<target>/`. Deterministic; run once and commit the files.
pub fn gen_corpus() -> std::io::Result<()> {
    use proptest::{
        strategy::{Strategy, ValueTree},
        test_runner::{Config, RngAlgorithm, TestRng, TestRunner},
    };
    let mut runner = TestRunner::new_with_rng(Config::default(), TestRng::from_seed(RngAlgorithm::ChaCha, &[7u8; 32]));
    let root = verif_root().join("corpus");
    let write = |target: &str, i: usize, data: &[u8]| -> std::io::Result<()> {
        let dir = root.join(target);
        std::fs::create_dir_all(&dir)?;
        std::fs::write(dir.join(format!("seed_{i:03}")), data)
    };
    // fz_stream
    let mut n = 0;
    let literals: [&[u8]; 14] = [
        b"foo: bar\nOK\n",
        b"foo: bar\nOK",
        b"OK\nOK\n",
        b"foo: asdf\nlist_OK\nbaz: qux\nlist_OK\nOK\n",
        b"ACK [5@0] {} unknown command \"foo\"\n",
        b"ACK [2@0] {random} Boolean (0/1) expected: foo\n",
        b"size: 6\ntype: image/jpeg\nbinary: 3\nFOO\nOK\n",
        b"foo: bar\nbinary: 6\nOK\nOK\n\nOK\n",
        b"binary: 18446744073709551616\nOK\n",
        b"ACK [99999999999999999999@0] {} x\n",
        b"changed: player\nchanged: mixer\nOK\n",
        b"a: \xff\xfe\nOK\n",
        b"list_OK\nACK [5@1] {} unknown command \"foo\"\n",
        b"foobar\n",
    ];
    for (ctrl, l) in [[0u8, 0, 0, 0], [1, 1, 0, 0], [2, 4, 100, 200]].iter().zip(literals.chunks(5)).flat_map(|(c, ls)| ls.iter().map(move |l| (c, l))) {
        write("fz_stream", n, &[&ctrl[..], l].concat())?;
        n += 1;
    }
    let strat = crate::props::c09::source(Tier::Quick);
    for i in 0..60usize {
        let src = strat.new_tree(&mut runner).expect("tree").current();
        let mut s = crate::props::c09::stream_of(&src);
        s.truncate(20_000);
        write("fz_stream", n, &[&[(i % 3) as u8, (i % 5) as u8, (i * 37) as u8, (i * 91) as u8][..], &s].concat())?;
        n += 1;
    }
    // fz_typed
    let mut n = 0;
    for _ in 0..80 {
        let case: c12::Case = c12::strategy_for_corpus().new_tree(&mut runner).expect("tree").current();
        let mut d = case.sel.to_le_bytes().to_vec();
        d.extend_from_slice(&c12::wire_of(&case));
        if d.len() < 6000 {
            write("fz_typed", n, &d)?;
            n += 1;
        }
    }
    // fz_cmd
    let mut n = 0;
    for l in [&b"\x00\xffJoe's"[..], b"\x01\xfffoo bar\xffx", b"\x02\xff\xffb", b"\x00\xffa\"b\\c", b"\x03\xff^\\d+$\xffy\xffz", b"\x00\xff(x) AND (y)"] {
        write("fz_cmd", n, l)?;
        n += 1;
    }
    // fz_sim: any bytes decode to a script; a few hand-made starting points
    for (i, seed) in [
        &[0u8, 1, 0, 1, 0, 0, 1, 4, 3, 0, 4, 2, 6, 5][..],
        &[0, 7, 2, 1, 7, 4, 1, 8, 16, 0, 0, 2, 9, 6, 4][..],
        &[0, 3, 0, 8, 11, 0, 0, 1, 4, 9, 11, 1, 5, 2, 0, 9, 3, 10, 0],
        &[0x80, 9, 0, 1, 0, 0, 1, 7, 1, 4, 2, 12, 1, 20, 9, 0, 8, 3],
        &[0xc0, 2, 3, 1, 2, 64, 5, 10, 12, 3, 2, 9, 6, 4, 0, 0, 1],
        &[0, 5, 4, 6, 0, 0, 1, 6, 8, 0, 0, 2, 6, 9, 0, 0, 3, 6, 3],
    ]
    .iter()
    .enumerate()
    {
        write("fz_sim", i, seed)?;
    }
    let strat = crate::cmdlab::arg_string(60);
    for i in 0..40usize {
        let mut d = vec![(i % 5) as u8];
        for _ in 0..(i % 4 + 1) {
            d.push(0xff);
            d.extend_from_slice(strat.new_tree(&mut runner).expect("tree").current().as_bytes());
        }
        write("fz_cmd", n, &d)?;
        n += 1;
    }
    Ok(())
}

// ---------------------------------------------------------------------------------------------
// fz_sim: bytes -> script for the session simulator -> judges of C01/C04/C05 (fault-free) or C08

struct Cur<'a> {
    d: &'a [u8],
    i: usize,
}

impl Cur<'_> {
    fn b(&mut self) -> u8 {
        let v = self.d.get(self.i).copied().unwrap_or(0);
        self.i += 1;
        v
    }
    fn done(&self) -> bool {
        self.i >= self.d.len()
    }
}

fn decode_step(c: &mut Cur<'_>, k: &mut usize, replies: &mut Vec<(String, crate::sim::ReplySpec)>, depth: u8, faulty: bool, fault_used: &mut bool) -> crate::sim::Step {
    use crate::sim::{Fault, ReplySpec, Req, Step};
    let op = c.b() % 13;
    match op {
        0..=3 => {
            let x = c.b();
            let caller = x % 3;
            let kind = (x >> 2) % 5;
            let n = if kind == 0 || kind == 2 { 1 } else { 1 + (x >> 5) as usize % 4 };
            let mut toks = Vec::new();
            for i in 0..n {
                let y = c.b();
                let t = format!("r{k}x{i}");
                let spec = if y % 5 == 0 {
                    ReplySpec::Ack { code: 1 + u64::from(y % 59), message: "no".into(), partial: if y & 0x40 != 0 { vec![("p".into(), "q".into())] } else { vec![] } }
                } else {
                    ReplySpec::Ok {
                        fields: (0..(y % 3)).map(|j| (["ka", "kb", "kc"][j as usize].to_string(), format!("v{y}"))).collect(),
                        binary: if y % 7 == 0 { Some(B(vec![y; (y as usize % 40) + 1])) } else { None },
                    }
                };
                replies.push((t.clone(), spec));
                toks.push(t);
            }
            *k += 1;
            let req = match kind {
                0 => Req::Raw(toks[0].clone()),
                1 => Req::RawList(toks),
                2 => Req::Typed(toks[0].clone()),
                3 => Req::TypedTuple(toks),
                _ => Req::TypedVec(toks),
            };
            Step::Issue { caller, req }
        }
        4 | 5 => {
            let x = c.b();
            let n = 1 + (x % 3) as usize;
            let names = (0..n)
                .map(|j| {
                    let y = x.wrapping_add(j as u8 * 37);
                    if y % 9 == 0 {
                        format!("zz{y}")
                    } else {
                        crate::props::simgen::SUBSYSTEMS[y as usize % 14].to_string()
                    }
                })
                .collect();
            Step::Change(names)
        }
        6 => Step::Advance([0, 1, 50, 99, 100, 101, 150, 250, 6_000, 61_000][c.b() as usize % 10]),
        7 => Step::Hold,
        8 => Step::Release(1 + c.b() as usize % 40),
        9 => Step::ReleaseAll,
        10 => Step::Cancel(c.b() % 8),
        11 if depth == 0 => {
            let a = decode_step(c, k, replies, 1, faulty, fault_used);
            let b = decode_step(c, k, replies, 1, faulty, fault_used);
            Step::Together(vec![a, b])
        }
        _ => {
            if faulty && !*fault_used && depth == 0 {
                *fault_used = true;
                let x = c.b();
                let y = c.b() as usize;
                Step::Fault(match x % 6 {
                    0 => Fault::EofAfter(0),
                    1 => Fault::EofAfter(y),
                    2 => Fault::ReadErrorAfter(y % 60),
                    3 => Fault::WriteErrorAfter(y % 5),
                    4 => Fault::Garbage(B::from(["foo bar", "ACK x", "binary: 2\nabX", "OK "][y % 4])),
                    _ => Fault::EofAfter(y * 16),
                })
            } else if faulty {
                Step::Advance(100)
            } else {
                // fault-free scripts: the transport's write side and the events handle
                let x = c.b();
                match x % 4 {
                    0 => Step::Advance(100),
                    1 => Step::StallWrites(if x & 0x80 != 0 { None } else { Some((x as usize >> 2) % 8) }),
                    2 => Step::ResumeWrites,
                    _ => Step::DropEvents,
                }
            }
        }
    }
}

pub fn script_from_bytes(data: &[u8]) -> (crate::sim::Script, bool) {
    use crate::sim::{Script, SegPattern};
    let mut c = Cur { d: data, i: 0 };
    let ctrl = c.b();
    let faulty = ctrl & 0x80 != 0;
    let sched_seed = u64::from(c.b()) | (u64::from(ctrl & 0x0f) << 8);
    let seg = match c.b() % 5 {
        0 | 1 => SegPattern::Whole,
        2 => SegPattern::Lines,
        3 => SegPattern::OneByte,
        _ => SegPattern::Chunk(2 + c.b() as usize % 30),
    };
    let mw = c.b();
    let max_write = if !faulty && mw % 8 == 0 { Some(1 + (mw as usize >> 3) % 11) } else { None };
    let mut replies = Vec::new();
    let mut steps = Vec::new();
    let mut k = 0;
    let mut fault_used = false;
    while !c.done() && steps.len() < 40 {
        steps.push(decode_step(&mut c, &mut k, &mut replies, 0, faulty, &mut fault_used));
    }
    (
        Script {
            sched_seed,
            seg,
            replies,
            steps,
            max_write,
            picture: None,
            broken_pipe: ctrl & 0x40 != 0,
            greeting: None,
            lazy_events: false,
            version: if ctrl & 0x20 != 0 { Some("0.20.23".to_string()) } else { None },
            vectored: ctrl & 0x10 != 0,
            events_polled_last: false,
            error_kind: 0,
            real_ms_per_advance: 0,
            noise_connection: false,
            greeting_tail: None,
            foreign_callers: false,
            shutdown_behaviour: 0,
            events_next_cancelled: false,
        },
        faulty && fault_used,
    )
}

/// C01 + C04 + C05 on fault-free scripts, C08 on scripts with one fault.
pub fn sim_target(data: &[u8]) -> Result<(), String> {
    use crate::props::{c08, simprops};
    if data.len() < 5 {
        return Ok(());
    }
    let (script, faulty) = script_from_bytes(data);
    let obs = crate::sim::run(&script);
    let fail = |id: &str, r: CaseResult| match r.outcome {
        Outcome::Fail(e) => Err(format!("{id}: {e}")),
        _ => Ok(()),
    };
    if faulty {
        fail("C08", c08::judge(&script, &obs))
    } else {
        fail("C01", simprops::judge_c01(&script, &obs))?;
        fail("C04", simprops::judge_c04(&script, &obs))?;
        fail("C05", simprops::judge_c05(&script, &obs))
    }
}
