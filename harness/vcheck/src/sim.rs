//! Deterministic session simulator (DESIGN.md 3.8): a harness-owned transport, a simulated MPD
//! that judges every line the client writes, a virtual clock and a seeded `select!`.

use std::{
    collections::{HashMap, VecDeque},
    io,
    pin::Pin,
    sync::{Arc, Mutex},
    task::{Context, Poll, Waker},
    time::Duration,
};

use mpd_client::{
    client::{CommandError, ConnectionEvent, ConnectionEvents},
    commands::Command as TypedCommand,
    responses::TypedResponseError,
    Client,
};
use mpd_protocol::{response::Frame, Command, CommandList, MpdProtocolError};
use serde::{Deserialize, Serialize};
use tokio::io::{AsyncRead, AsyncWrite, ReadBuf};

use crate::{
    core::{escape_bytes, B},
    mpdtok,
    wire::{AFrame, Ack, Item, OErr, OFrame},
};

pub const GREETING: &[u8] = b"OK MPD 0.23.5\n";

// ---------------------------------------------------------------------------------------------
// case description

#[derive(Debug, Clone, Serialize, Deserialize, PartialEq)]
pub enum ReplySpec {
    Ok { fields: Vec<(String, String)>, binary: Option<B> },
    /// `partial`: output the failing command produced before the error (dropped by the client)
    Ack {
        code: u64,
        message: String,
        #[serde(default)]
        partial: Vec<(String, String)>,
    },
}

#[derive(Debug, Clone, Serialize, Deserialize, PartialEq)]
pub enum SegPattern {
    /// everything the server writes is readable at once
    Whole,
    OneByte,
    Chunk(usize),
    /// a chunk boundary after every line feed
    Lines,
}

#[derive(Debug, Clone, Serialize, Deserialize, PartialEq)]
pub struct Pic {
    pub bytes: B,
    pub mime: Option<String>,
}

#[derive(Debug, Clone, Serialize, Deserialize, PartialEq)]
pub enum PicSource {
    Absent,
    Present(Pic),
    /// every request for it is answered with this ACK code
    Error(u64),
    /// the command itself is unknown to the server (`ACK [5@0] {} unknown command`)
    UnknownCommand,
}

#[derive(Debug, Clone, Serialize, Deserialize, PartialEq)]
pub struct PictureServer {
    pub embedded: PicSource,
    pub cover: PicSource,
    pub limit: usize,
    /// the i-th data reply for a uri carries at most pattern[i % len] bytes (empty: always `limit`);
    /// a server may always send less than its limit
    #[serde(default)]
    pub pattern: Vec<usize>,
    /// the n-th (n >= 1) request to the command that yields the data is answered with this ACK code
    #[serde(default)]
    pub fail_at: Option<(usize, u64)>,
}

#[derive(Debug, Clone, Serialize, Deserialize, PartialEq)]
pub enum Req {
    Raw(String),
    RawList(Vec<String>),
    Typed(String),
    /// tuple of probes, arity 1..=8
    TypedTuple(Vec<String>),
    TypedVec(Vec<String>),
    AlbumArt(String),
    /// (Status, Stats) / (Stats, Status, CurrentSong) / ... by index
    MixedTuple(u8),
}

#[derive(Debug, Clone, Serialize, Deserialize, PartialEq)]
pub enum Fault {
    /// the peer closes: no byte at or beyond this absolute outbox offset is ever delivered
    EofAt(usize),
    /// like EofAt but relative to the current end of the outbox (0 = right now, on a boundary)
    EofAfter(usize),
    /// reads fail persistently once the client has read this many more bytes
    ReadErrorAfter(usize),
    /// the n-th write from now on (0 = the next one) and all later ones fail
    WriteErrorAfter(usize),
    /// a malformed line is spliced into the server's output right now
    Garbage(B),
    /// the next write accepts only `short` bytes (0: skip this part), the write call after it fails
    /// once with ErrorKind::Interrupted; later writes work again
    WriteInterruptedOnce { short: usize },
    /// the n-th write from now on (0 = the next one) and all later ones accept no bytes: Ok(0)
    WriteZeroAfter(usize),
}

#[derive(Debug, Clone, Serialize, Deserialize, PartialEq)]
pub enum Step {
    Issue { caller: u8, req: Req },
    /// abort the n-th issued request (index into issue order)
    Cancel(u8),
    Change(Vec<String>),
    Advance(u64),
    Hold,
    Release(usize),
    ReleaseAll,
    DropCaller(u8),
    DropAllClients,
    DropEvents,
    Fault(Fault),
    /// several steps without letting the client run in between (both become ready at once)
    Together(Vec<Step>),
    /// the transport stops accepting writes (poll_write is Pending) - now, or after k more bytes
    StallWrites(Option<usize>),
    ResumeWrites,
}

#[derive(Debug, Clone, Serialize, Deserialize, PartialEq, Default)]
pub struct Password {
    pub password: String,
    /// what the server answers to `password ...`
    pub verdict: PasswordVerdict,
    /// cut the verdict after this many bytes and close (None = deliver completely)
    pub cut: Option<usize>,
}

#[derive(Debug, Clone, Serialize, Deserialize, PartialEq, Default)]
pub enum PasswordVerdict {
    #[default]
    Ok,
    OkWithFields,
    Ack(u64),
    Close,
    Garbage,
}

#[derive(Debug, Clone, Serialize, Deserialize, PartialEq)]
pub struct Script {
    pub sched_seed: u64,
    pub seg: SegPattern,
    pub replies: Vec<(String, ReplySpec)>,
    pub steps: Vec<Step>,
    /// at most this many bytes are accepted per write (partial writes are legal for AsyncWrite)
    pub max_write: Option<usize>,
    pub picture: Option<PictureServer>,
    /// writes after the peer closed: true = fail with BrokenPipe, false = succeed silently
    pub broken_pipe: bool,
    /// instead of the standard greeting the peer sends exactly these bytes (segmented by `seg`) and closes
    #[serde(default)]
    pub greeting: Option<B>,
    /// the event receiver is not polled before the end of the script (a slow consumer)
    #[serde(default)]
    pub lazy_events: bool,
    /// version string of the greeting (None: 0.23.5)
    #[serde(default)]
    pub version: Option<String>,
    /// the transport reports `is_write_vectored()` and accepts vectored writes (like a real socket);
    /// a short write may then end in the middle of any of the buffers
    #[serde(default)]
    pub vectored: bool,
    /// with `lazy_events`: the application holds its events handle but does not poll it until all
    /// requests have been awaited and `is_connection_closed` has been read (an application that only
    /// looks at events now and then must not make requests hang)
    #[serde(default)]
    pub events_polled_last: bool,
    /// which io::ErrorKind injected read/write errors carry (0 ConnectionReset, 1 UnexpectedEof,
    /// 2 BrokenPipe, 3 TimedOut, 4 Other, 5 ConnectionAborted, 6 InvalidData, 7 NotConnected)
    #[serde(default)]
    pub error_kind: u8,
    /// Advance steps also let this many milliseconds of REAL time pass (capped per step): code that
    /// reads the wall clock instead of the runtime's clock sees time move
    #[serde(default)]
    pub real_ms_per_advance: u16,
    /// a second, unrelated connection lives on the same thread: it keeps receiving (and abandoning)
    /// partial responses of its own
    #[serde(default)]
    pub noise_connection: bool,
    /// complete lines the peer sends unasked in the same segment as its greeting (a banner, a proxy's
    /// remark): a client must not take them for the answer to a request it has yet to send
    #[serde(default)]
    pub greeting_tail: Option<B>,
    /// the callers' futures are not tasks of the runtime that runs the connection: they are polled by a
    /// small executor on another OS thread (a `Client` is Send + Sync; an application may use its clones
    /// from any thread and any executor). The driver waits for that thread to go idle after every runtime
    /// tick, so the interleaving stays a function of the case.
    #[serde(default)]
    pub foreign_callers: bool,
    /// what the transport's `poll_shutdown` does if anyone calls it: 0 completes, 1 never completes
    /// (Pending, no wake-up), 2 fails with `error_kind` (a reset socket)
    #[serde(default)]
    pub shutdown_behaviour: u8,
    /// the application waits for events inside a `select!`: its pending `events.next()` future is
    /// dropped before every script step and a new one created (the receiver is the same)
    #[serde(default)]
    pub events_next_cancelled: bool,
}

pub fn error_kind(k: u8) -> io::ErrorKind {
    use io::ErrorKind::*;
    [ConnectionReset, UnexpectedEof, BrokenPipe, TimedOut, Other, ConnectionAborted, InvalidData, NotConnected][k as usize % 8]
}

impl Script {
    /// length of the greeting line the simulated server sends for this script
    pub fn greeting_len(&self) -> usize {
        self.version.as_ref().map_or(GREETING.len(), |v| "OK MPD ".len() + v.len() + 1)
    }

    pub fn new(steps: Vec<Step>) -> Script {
        Script { sched_seed: 1, seg: SegPattern::Whole, replies: Vec::new(), steps, max_write: None, picture: None, broken_pipe: true, greeting: None, lazy_events: false, version: None, vectored: false, events_polled_last: false, error_kind: 0, real_ms_per_advance: 0, noise_connection: false, greeting_tail: None, foreign_callers: false, shutdown_behaviour: 0, events_next_cancelled: false }
    }
}

// ---------------------------------------------------------------------------------------------
// transcript

#[derive(Debug, Clone, PartialEq)]
pub enum Tx {
    /// a complete line arrived
    Line {
        seq: u64,
        line: Vec<u8>,
        /// outbox bytes not yet read by the client when the line arrived
        unread: usize,
        /// client's read position at that moment
        read_pos: usize,
        server_idle: bool,
        t_ms: u64,
    },
    /// the server wrote an idle reply listing these subsystems
    Changed { seq: u64, names: Vec<String>, start: usize, end: usize },
    /// the server wrote a reply to a request
    Reply { seq: u64, tokens: Vec<String>, start: usize, end: usize },
    /// the client read bytes: new read position
    Read { seq: u64, pos: usize },
    PictureRequest { seq: u64, command: String, uri: String, offset: u64 },
}

#[derive(Debug, Clone, PartialEq, Eq)]
pub enum Verdict {
    FirstLineNotIdle(String),
    CommandDuringIdle(String),
    RequestWhileReplyUnread(String),
    UnknownToken(String),
    MalformedLine(String),
    IdleInsideList,
    NestedList,
    UnterminatedOutputAtEnd(String),
}

pub struct Server {
    replies: HashMap<String, ReplySpec>,
    picture: Option<PictureServer>,
    pub idle_waiting: bool,
    pending_changes: Vec<String>,
    list: Option<Vec<Vec<u8>>>,
    lines_seen: usize,
    pub transcript: Vec<Tx>,
    pub verdicts: Vec<Verdict>,
    pub password: Option<Password>,
    password_done: bool,
    picture_requests: HashMap<(String, String), usize>,
}

// ---------------------------------------------------------------------------------------------
// transport

pub struct Shared {
    /// the executor thread of `Script.foreign_callers`, if any (settle waits for it)
    pub foreign: Option<Arc<Foreign>>,
    shutdown_behaviour: u8,
    pub outbox: Vec<u8>,
    released: usize,
    marks: VecDeque<usize>,
    pub read_pos: usize,
    read_waker: Option<Waker>,
    inbox: Vec<u8>,
    pub hold: bool,
    seg: SegPattern,
    pub eof_at: Option<usize>,
    read_err_at: Option<usize>,
    write_err_countdown: Option<usize>,
    write_interrupt: Option<(usize, bool)>,
    pub write_stalled: bool,
    stall_after: Option<usize>,
    write_waker: Option<Waker>,
    pub peer_closed_writes_fail: bool,
    max_write: Option<usize>,
    pub activity: u64,
    seq: u64,
    pub polls: u64,
    pub dropped: bool,
    pub shutdown_called: bool,
    pub eof_seen: bool,
    pub read_err_seen: bool,
    pub write_err_seen: bool,
    pub broken_pipe_seen: bool,
    pub garbage_at: Option<(usize, usize)>,
    pub server: Server,
    now_ms: u64,
    start: Option<tokio::time::Instant>,
    pub last_io_ms: u64,
    pub all_written: Vec<u8>,
    vectored: bool,
    pub vectored_writes: usize,
    error_kind: u8,
    write_zero: bool,
    /// "polls without bound" = more polls than any legitimate run of this script can need: 5 million
    /// plus 300 per byte of the pictures on offer (a picture served one byte per reply to two callers
    /// under one-byte reads costs ~100 polls per byte and caller)
    poll_bound: u64,
}

pub type Handle = Arc<Mutex<Shared>>;

pub struct SimIo(pub Handle);

impl Shared {
    fn next_seq(&mut self) -> u64 {
        self.seq += 1;
        self.seq
    }

    pub fn set_now(&mut self, ms: u64) {
        self.now_ms = ms;
    }

    /// virtual time of the running runtime (I/O happens inside it)
    fn tick(&mut self) {
        if let Some(st) = self.start {
            self.now_ms = st.elapsed().as_millis() as u64;
        }
    }

    fn eof_reached(&self) -> bool {
        self.eof_at.is_some_and(|k| self.read_pos >= k)
    }

    /// make newly written server output readable according to the segmentation pattern
    fn publish(&mut self) {
        if self.hold {
            return;
        }
        let from = self.released;
        let to = self.outbox.len();
        if to <= from {
            return;
        }
        match &self.seg {
            SegPattern::Whole => {}
            SegPattern::OneByte => self.marks.extend(from + 1..to),
            SegPattern::Chunk(n) => {
                let n = (*n).max(1);
                let mut m = from + n;
                while m < to {
                    self.marks.push_back(m);
                    m += n;
                }
            }
            SegPattern::Lines => {
                for i in from..to {
                    if self.outbox[i] == b'\n' && i + 1 < to {
                        self.marks.push_back(i + 1);
                    }
                }
            }
        }
        self.marks.push_back(to);
        self.released = to;
        self.wake_reader();
    }

    fn wake_reader(&mut self) {
        if let Some(w) = self.read_waker.take() {
            w.wake();
        }
    }

    pub fn release(&mut self, n: usize) {
        let to = (self.released + n).min(self.outbox.len());
        if to > self.released {
            self.released = to;
            self.marks.push_back(to);
            self.activity += 1;
        }
        self.wake_reader();
    }

    pub fn stall_writes(&mut self, after: Option<usize>) {
        match after {
            None | Some(0) => self.write_stalled = true,
            Some(k) => self.stall_after = Some(k),
        }
        self.activity += 1;
    }

    pub fn resume_writes(&mut self) {
        self.write_stalled = false;
        self.stall_after = None;
        self.activity += 1;
        if let Some(w) = self.write_waker.take() {
            w.wake();
        }
    }

    pub fn release_all(&mut self) {
        self.hold = false;
        self.publish();
        self.wake_reader();
    }

    pub fn unread(&self) -> usize {
        let end = self.eof_at.map_or(self.outbox.len(), |k| k.min(self.outbox.len()));
        end.saturating_sub(self.read_pos)
    }

    fn server_write(&mut self, bytes: &[u8]) -> (usize, usize) {
        let start = self.outbox.len();
        self.outbox.extend_from_slice(bytes);
        let end = self.outbox.len();
        self.publish();
        (start, end)
    }

    pub fn arm(&mut self, f: &Fault) {
        match f {
            Fault::EofAt(k) => self.eof_at = Some(*k),
            Fault::EofAfter(k) => self.eof_at = Some(self.outbox.len().max(self.read_pos) + k),
            Fault::ReadErrorAfter(k) => self.read_err_at = Some(self.read_pos + k),
            Fault::WriteErrorAfter(k) => self.write_err_countdown = Some(*k),
            Fault::WriteZeroAfter(k) => {
                self.write_err_countdown = Some(*k);
                self.write_zero = true;
            }
            Fault::WriteInterruptedOnce { short } => self.write_interrupt = Some((*short, *short == 0)),
            Fault::Garbage(g) => {
                let mut l = g.0.clone();
                l.push(b'\n');
                let at = self.server_write(&l);
                self.garbage_at = Some(at);
            }
        }
        self.activity += 1;
        self.wake_reader();
    }

    // ---- the simulated MPD ----

    fn on_line(&mut self, line: Vec<u8>) {
        let seq = self.next_seq();
        let unread = self.unread();
        let server_idle = self.server.idle_waiting;
        self.server.transcript.push(Tx::Line { seq, line: line.clone(), unread, read_pos: self.read_pos, server_idle, t_ms: self.now_ms });
        self.server.lines_seen += 1;
        let text = escape_bytes(&line);
        let c_line = mpdtok::c_line(&line).to_vec();

        // password gate (C18)
        if let Some(pw) = self.server.password.clone() {
            if !self.server.password_done {
                self.server.password_done = true;
                let toks = mpdtok::tokenize(&line).unwrap_or_default();
                if toks.first().map(Vec::as_slice) != Some(b"password") {
                    self.server.verdicts.push(Verdict::FirstLineNotIdle(format!("expected password, got {text}")));
                } else if toks.get(1).map(Vec::as_slice) != Some(pw.password.as_bytes()) {
                    self.server.verdicts.push(Verdict::MalformedLine(format!("password mangled: {text}")));
                }
                let mut out: Vec<u8> = match pw.verdict {
                    PasswordVerdict::Ok => b"OK\n".to_vec(),
                    PasswordVerdict::OkWithFields => b"note: welcome\nOK\n".to_vec(),
                    PasswordVerdict::Ack(code) => format!("ACK [{code}@0] {{password}} incorrect password\n").into_bytes(),
                    PasswordVerdict::Close => Vec::new(),
                    PasswordVerdict::Garbage => b"what is this\n".to_vec(),
                };
                let full_len = out.len();
                if let Some(c) = pw.cut {
                    out.truncate(c.min(full_len));
                }
                let truncated = out.len() < full_len;
                let (_, end) = self.server_write(&out);
                if truncated || matches!(pw.verdict, PasswordVerdict::Close) {
                    self.eof_at = Some(end);
                    self.wake_reader();
                }
                return;
            }
        }

        let first = self.server.lines_seen == 1 + usize::from(self.server.password.is_some());
        if first && c_line != b"idle" {
            self.server.verdicts.push(Verdict::FirstLineNotIdle(text.clone()));
        }

        if self.server.idle_waiting {
            if c_line == b"noidle" {
                self.server.idle_waiting = false;
                self.server_write(b"OK\n");
            } else {
                // a real MPD closes the connection here
                self.server.verdicts.push(Verdict::CommandDuringIdle(text));
                self.server.idle_waiting = false;
                self.process(line);
            }
            return;
        }
        if c_line == b"noidle" {
            // ignored without reply outside idle
            return;
        }
        let in_list = self.server.list.is_some();
        if unread > 0 && !in_list {
            self.server.verdicts.push(Verdict::RequestWhileReplyUnread(format!("{text} arrived with {unread} reply byte(s) unread")));
        }
        self.process(line);
    }

    fn process(&mut self, line: Vec<u8>) {
        match mpdtok::line_kind(&line) {
            mpdtok::LineKind::ListOkBegin | mpdtok::LineKind::ListBegin => {
                if self.server.list.is_some() {
                    self.server.verdicts.push(Verdict::NestedList);
                }
                if mpdtok::line_kind(&line) == mpdtok::LineKind::ListBegin {
                    self.server.verdicts.push(Verdict::MalformedLine("command_list_begin (replies would not be separable)".into()));
                }
                self.server.list = Some(Vec::new());
                return;
            }
            mpdtok::LineKind::ListEnd => {
                match self.server.list.take() {
                    None => self.server.verdicts.push(Verdict::MalformedLine("command_list_end outside a list".into())),
                    Some(lines) => {
                        let mut out = Vec::new();
                        let mut tokens = Vec::new();
                        let mut failed = false;
                        for (i, l) in lines.iter().enumerate() {
                            match self.execute(l, i as u64, &mut tokens) {
                                Ok(mut bytes) => {
                                    out.append(&mut bytes);
                                    out.extend_from_slice(b"list_OK\n");
                                }
                                Err(mut ack) => {
                                    out.append(&mut ack);
                                    failed = true;
                                    break;
                                }
                            }
                        }
                        if !failed {
                            out.extend_from_slice(b"OK\n");
                        }
                        let (start, end) = self.server_write(&out);
                        let seq = self.next_seq();
                        self.server.transcript.push(Tx::Reply { seq, tokens, start, end });
                    }
                }
                return;
            }
            mpdtok::LineKind::Other => {}
        }
        if let Some(list) = self.server.list.as_mut() {
            list.push(line);
            return;
        }
        if mpdtok::c_line(&line) == b"idle" {
            if self.server.pending_changes.is_empty() {
                self.server.idle_waiting = true;
            } else {
                let names = std::mem::take(&mut self.server.pending_changes);
                self.write_changed(names);
            }
            return;
        }
        let mut tokens = Vec::new();
        let out = match self.execute(&line, 0, &mut tokens) {
            Ok(mut b) => {
                b.extend_from_slice(b"OK\n");
                b
            }
            Err(ack) => ack,
        };
        let (start, end) = self.server_write(&out);
        let seq = self.next_seq();
        self.server.transcript.push(Tx::Reply { seq, tokens, start, end });
    }

    fn write_changed(&mut self, names: Vec<String>) {
        let mut out = Vec::new();
        for n in &names {
            out.extend_from_slice(format!("changed: {n}\n").as_bytes());
        }
        out.extend_from_slice(b"OK\n");
        let (start, end) = self.server_write(&out);
        let seq = self.next_seq();
        self.server.transcript.push(Tx::Changed { seq, names, start, end });
    }

    pub fn change(&mut self, names: &[String]) {
        self.activity += 1;
        let mut fresh: Vec<String> = Vec::new();
        for n in names {
            if !fresh.contains(n) {
                fresh.push(n.clone());
            }
        }
        if self.server.idle_waiting {
            self.server.idle_waiting = false;
            self.write_changed(fresh);
        } else {
            for n in fresh {
                if !self.server.pending_changes.contains(&n) {
                    self.server.pending_changes.push(n);
                }
            }
        }
    }

    /// Output of one command (without the terminating OK / list_OK), or the ACK line.
    fn execute(&mut self, line: &[u8], index: u64, tokens: &mut Vec<String>) -> Result<Vec<u8>, Vec<u8>> {
        let ack = |code: u64, cmd: &str, msg: &str| format!("ACK [{code}@{index}] {{{cmd}}} {msg}\n").into_bytes();
        let toks = match mpdtok::tokenize(line) {
            Ok(t) => t,
            Err(e) => {
                self.server.verdicts.push(Verdict::MalformedLine(format!("{}: {e:?}", escape_bytes(line))));
                return Err(ack(5, "", "syntax error"));
            }
        };
        let s = |i: usize| toks.get(i).map(|t| String::from_utf8_lossy(t).to_string());
        let name = s(0).unwrap_or_default();
        match name.as_str() {
            "idle" => {
                self.server.verdicts.push(Verdict::IdleInsideList);
                Err(ack(5, "idle", "not allowed here"))
            }
            "req" | "probe" => {
                let tok = s(1).unwrap_or_default();
                tokens.push(tok.clone());
                match self.server.replies.get(&tok).cloned() {
                    None => {
                        self.server.verdicts.push(Verdict::UnknownToken(tok));
                        Err(ack(50, &name, "no such token"))
                    }
                    Some(ReplySpec::Ack { code, message, partial }) => {
                        let mut out = Vec::new();
                        for (k, v) in partial {
                            out.extend_from_slice(format!("{k}: {v}\n").as_bytes());
                        }
                        out.extend_from_slice(&ack(code, &name, &message));
                        Err(out)
                    }
                    Some(ReplySpec::Ok { fields, binary }) => {
                        let mut out = format!("tok: {tok}\n").into_bytes();
                        for (k, v) in fields {
                            out.extend_from_slice(format!("{k}: {v}\n").as_bytes());
                        }
                        if let Some(b) = binary {
                            out.extend_from_slice(format!("binary: {}\n", b.len()).as_bytes());
                            out.extend_from_slice(&b);
                            out.push(b'\n');
                        }
                        Ok(out)
                    }
                }
            }
            "status" => {
                tokens.push("status".into());
                Ok(b"volume: 42\nrepeat: 0\nrandom: 1\nsingle: 0\nconsume: 0\nplaylist: 7\nplaylistlength: 3\nstate: stop\n".to_vec())
            }
            "stats" => {
                tokens.push("stats".into());
                Ok(b"uptime: 5\nplaytime: 6\nartists: 11\nalbums: 12\nsongs: 13\ndb_playtime: 14\ndb_update: 15\n".to_vec())
            }
            "currentsong" => {
                tokens.push("currentsong".into());
                Ok(b"file: cur.flac\nTitle: Current\nPos: 2\nId: 9\n".to_vec())
            }
            "listplaylists" => {
                tokens.push("listplaylists".into());
                Ok(b"playlist: pl\nLast-Modified: 2020-06-12T17:53:00Z\n".to_vec())
            }
            "channels" => {
                tokens.push("channels".into());
                Ok(b"channel: ch1\n".to_vec())
            }
            "replay_gain_status" => {
                tokens.push("replay_gain_status".into());
                Ok(b"replay_gain_mode: album\n".to_vec())
            }
            "ping" => {
                tokens.push("ping".into());
                Ok(Vec::new())
            }
            "readpicture" | "albumart" => {
                let uri = s(1).unwrap_or_default();
                let offset: u64 = s(2).and_then(|o| o.parse().ok()).unwrap_or(u64::MAX);
                let seq = self.next_seq();
                self.server.transcript.push(Tx::PictureRequest { seq, command: name.clone(), uri, offset });
                tokens.push(name.clone());
                let Some(ps) = self.server.picture.clone() else {
                    return Err(ack(5, "", &format!("unknown command \"{name}\"")));
                };
                let src = if name == "readpicture" { ps.embedded } else { ps.cover };
                match src {
                    PicSource::UnknownCommand => Err(ack(5, "", &format!("unknown command \"{name}\""))),
                    PicSource::Error(code) => Err(ack(code, &name, "No such file")),
                    PicSource::Absent => {
                        if name == "albumart" {
                            // MPD answers albumart for a song without cover file with an error
                            // 50 "No file exists"; the crate documents Ok(None) for an empty reply
                            Ok(Vec::new())
                        } else {
                            Ok(Vec::new())
                        }
                    }
                    PicSource::Present(pic) => {
                        let size = pic.bytes.len();
                        let off = (offset as usize).min(size);
                        let counter = self.server.picture_requests.entry((name.clone(), s(1).unwrap_or_default())).or_insert(0);
                        let i = *counter;
                        *counter += 1;
                        if let Some((n, code)) = ps.fail_at {
                            if n >= 1 && n == i {
                                return Err(ack(code, &name, "No such file"));
                            }
                        }
                        let cap = if ps.pattern.is_empty() { usize::MAX } else { ps.pattern[i % ps.pattern.len()].max(1) };
                        let n = (size - off).min(ps.limit.max(1)).min(cap);
                        let mut out = format!("size: {size}\n").into_bytes();
                        if let (true, Some(m)) = (name == "readpicture", &pic.mime) {
                            out.extend_from_slice(format!("type: {m}\n").as_bytes());
                        }
                        out.extend_from_slice(format!("binary: {n}\n").as_bytes());
                        out.extend_from_slice(&pic.bytes[off..off + n]);
                        out.push(b'\n');
                        Ok(out)
                    }
                }
            }
            other => Err(ack(5, "", &format!("unknown command \"{other}\""))),
        }
    }
}

impl AsyncRead for SimIo {
    fn poll_read(self: Pin<&mut Self>, cx: &mut Context<'_>, buf: &mut ReadBuf<'_>) -> Poll<io::Result<()>> {
        let mut s = self.0.lock().unwrap();
        s.polls += 1;
        s.tick();
        if s.polls > s.poll_bound {
            return Poll::Ready(Err(io::Error::other("harness: poll bound exceeded")));
        }
        if let Some(k) = s.read_err_at {
            if s.read_pos >= k {
                s.activity += 1;
                s.read_err_seen = true;
                return Poll::Ready(Err(io::Error::new(error_kind(s.error_kind), "harness: injected read error")));
            }
        }
        let mut limit = s.released;
        if let Some(k) = s.eof_at {
            limit = limit.min(k);
        }
        if let Some(k) = s.read_err_at {
            limit = limit.min(k);
        }
        if s.read_pos < limit {
            while s.marks.front().is_some_and(|m| *m <= s.read_pos) {
                s.marks.pop_front();
            }
            let mark = s.marks.front().copied().unwrap_or(limit).min(limit);
            let n = (mark - s.read_pos).min(buf.remaining());
            if n == 0 {
                // zero-capacity buffer handed in by the caller
                return Poll::Ready(Ok(()));
            }
            let pos = s.read_pos;
            buf.put_slice(&s.outbox[pos..pos + n]);
            s.read_pos += n;
            s.activity += 1;
            s.last_io_ms = s.now_ms;
            let seq = s.next_seq();
            let pos = s.read_pos;
            s.server.transcript.push(Tx::Read { seq, pos });
            return Poll::Ready(Ok(()));
        }
        if s.eof_reached() {
            s.activity += 1;
            s.eof_seen = true;
            return Poll::Ready(Ok(()));
        }
        s.read_waker = Some(cx.waker().clone());
        Poll::Pending
    }
}

impl AsyncWrite for SimIo {
    fn poll_write(self: Pin<&mut Self>, cx: &mut Context<'_>, data: &[u8]) -> Poll<io::Result<usize>> {
        let mut s = self.0.lock().unwrap();
        s.polls += 1;
        s.tick();
        // a client that keeps writing without bound (no script makes it send more than a few hundred
        // KB) is cut off the same way as one that polls without bound
        if s.polls > s.poll_bound || s.all_written.len() > (64 << 20) {
            s.polls = s.polls.max(s.poll_bound + 1);
            return Poll::Ready(Err(io::Error::other("harness: poll bound exceeded")));
        }
        if s.write_stalled {
            s.write_waker = Some(cx.waker().clone());
            return Poll::Pending;
        }
        s.activity += 1;
        if let Some((short, armed)) = s.write_interrupt {
            if armed {
                s.write_interrupt = None;
                s.write_err_seen = true;
                return Poll::Ready(Err(io::Error::new(io::ErrorKind::Interrupted, "harness: transient write error")));
            }
            let _ = short;
        }
        if let Some(c) = s.write_err_countdown {
            if c == 0 {
                s.write_err_seen = true;
                if s.write_zero {
                    return Poll::Ready(Ok(0));
                }
                return Poll::Ready(Err(io::Error::new(error_kind(s.error_kind), "harness: injected write error")));
            }
            s.write_err_countdown = Some(c - 1);
        }
        if s.eof_at.is_some_and(|k| k <= s.outbox.len()) && s.peer_closed_writes_fail {
            s.broken_pipe_seen = true;
            return Poll::Ready(Err(io::Error::new(io::ErrorKind::BrokenPipe, "harness: peer closed")));
        }
        let mut n = s.max_write.map_or(data.len(), |m| m.max(1).min(data.len()));
        if let Some((short, false)) = s.write_interrupt {
            n = n.min(short.max(1));
            s.write_interrupt = Some((short, true));
        }
        if let Some(k) = s.stall_after {
            n = n.min(k.max(1));
            if k <= n {
                s.stall_after = None;
                s.write_stalled = true;
            } else {
                s.stall_after = Some(k - n);
            }
        }
        s.last_io_ms = s.now_ms;
        s.all_written.extend_from_slice(&data[..n]);
        let peer_gone = s.eof_at.is_some_and(|k| k <= s.outbox.len());
        for &b in &data[..n] {
            if b == b'\n' {
                let line = std::mem::take(&mut s.inbox);
                if !peer_gone {
                    s.on_line(line);
                }
            } else {
                s.inbox.push(b);
            }
        }
        Poll::Ready(Ok(n))
    }

    fn poll_write_vectored(self: Pin<&mut Self>, cx: &mut Context<'_>, bufs: &[io::IoSlice<'_>]) -> Poll<io::Result<usize>> {
        // what a socket does: take bytes from the buffers in order, as many as it has room for
        let joined: Vec<u8> = bufs.iter().flat_map(|b| b.iter().copied()).collect();
        self.0.lock().unwrap().vectored_writes += 1;
        self.poll_write(cx, &joined)
    }

    fn is_write_vectored(&self) -> bool {
        self.0.lock().unwrap().vectored
    }

    fn poll_flush(self: Pin<&mut Self>, _cx: &mut Context<'_>) -> Poll<io::Result<()>> {
        Poll::Ready(Ok(()))
    }

    fn poll_shutdown(self: Pin<&mut Self>, _cx: &mut Context<'_>) -> Poll<io::Result<()>> {
        let mut s = self.0.lock().unwrap();
        s.shutdown_called = true;
        s.activity += 1;
        match s.shutdown_behaviour {
            1 => Poll::Pending,
            2 => Poll::Ready(Err(io::Error::new(error_kind(s.error_kind), "harness: shutdown of a dead transport"))),
            _ => Poll::Ready(Ok(())),
        }
    }
}

/// Transport of the noise connection: a greeting, then one line of a never-ending response per read,
/// every other read Pending (the receive is abandoned there).
struct NoiseIo {
    greeted: bool,
    give: bool,
    /// position inside the current line
    at: usize,
}

impl AsyncRead for NoiseIo {
    fn poll_read(mut self: Pin<&mut Self>, _cx: &mut Context<'_>, buf: &mut ReadBuf<'_>) -> Poll<io::Result<()>> {
        if !self.greeted {
            self.greeted = true;
            buf.put_slice(GREETING);
            return Poll::Ready(Ok(()));
        }
        const LINE: &[u8] = b"noise: 1\n";
        if self.at == 0 {
            self.give = !self.give;
            if self.give {
                return Poll::Pending;
            }
        }
        let n = (LINE.len() - self.at).min(buf.remaining());
        buf.put_slice(&LINE[self.at..self.at + n]);
        self.at = (self.at + n) % LINE.len();
        Poll::Ready(Ok(()))
    }
}

impl AsyncWrite for NoiseIo {
    fn poll_write(self: Pin<&mut Self>, _cx: &mut Context<'_>, data: &[u8]) -> Poll<io::Result<usize>> {
        Poll::Ready(Ok(data.len()))
    }
    fn poll_flush(self: Pin<&mut Self>, _cx: &mut Context<'_>) -> Poll<io::Result<()>> {
        Poll::Ready(Ok(()))
    }
    fn poll_shutdown(self: Pin<&mut Self>, _cx: &mut Context<'_>) -> Poll<io::Result<()>> {
        Poll::Ready(Ok(()))
    }
}

impl Drop for SimIo {
    fn drop(&mut self) {
        let mut s = self.0.lock().unwrap();
        s.dropped = true;
        s.activity += 1;
    }
}

pub fn new_io(script: &Script, password: Option<Password>) -> (SimIo, Handle) {
    let shared = Shared {
        foreign: None,
        shutdown_behaviour: script.shutdown_behaviour,
        outbox: Vec::new(),
        released: 0,
        marks: VecDeque::new(),
        read_pos: 0,
        read_waker: None,
        inbox: Vec::new(),
        hold: false,
        seg: SegPattern::Whole,
        eof_at: None,
        read_err_at: None,
        write_err_countdown: None,
        write_interrupt: None,
        write_stalled: false,
        stall_after: None,
        write_waker: None,
        peer_closed_writes_fail: script.broken_pipe,
        max_write: script.max_write,
        activity: 0,
        seq: 0,
        polls: 0,
        dropped: false,
        shutdown_called: false,
        eof_seen: false,
        read_err_seen: false,
        write_err_seen: false,
        broken_pipe_seen: false,
        garbage_at: None,
        server: Server {
            replies: script.replies.iter().cloned().collect(),
            picture: script.picture.clone(),
            idle_waiting: false,
            pending_changes: Vec::new(),
            list: None,
            lines_seen: 0,
            transcript: Vec::new(),
            verdicts: Vec::new(),
            password,
            password_done: false,
            picture_requests: HashMap::new(),
        },
        now_ms: 0,
        start: None,
        last_io_ms: 0,
        all_written: Vec::new(),
        vectored: script.vectored,
        vectored_writes: 0,
        error_kind: script.error_kind,
        write_zero: false,
        poll_bound: 5_000_000
            + script.picture.as_ref().map_or(0, |p| {
                let len = |s: &PicSource| match s {
                    PicSource::Present(pic) => pic.bytes.0.len() as u64,
                    _ => 0,
                };
                300 * (len(&p.embedded) + len(&p.cover))
            }),
    };
    let h = Arc::new(Mutex::new(shared));
    {
        let mut s = h.lock().unwrap();
        match &script.greeting {
            None => {
                // the greeting is one read of its own; the case's pattern applies to everything after it
                let mut first = match &script.version {
                    None => GREETING.to_vec(),
                    Some(v) => format!("OK MPD {v}\n").into_bytes(),
                };
                if let Some(t) = &script.greeting_tail {
                    first.extend_from_slice(&t.0);
                }
                s.server_write(&first);
                s.seg = script.seg.clone();
            }
            Some(g) => {
                s.seg = script.seg.clone();
                let (_, end) = s.server_write(g);
                s.eof_at = Some(end);
            }
        }
    }
    (SimIo(h.clone()), h)
}

// ---------------------------------------------------------------------------------------------
// probes and request execution

#[derive(Debug, Clone)]
pub struct Probe(pub String);

impl TypedCommand for Probe {
    type Response = String;
    fn command(&self) -> Command {
        Command::new("probe").argument(self.0.as_str())
    }
    fn response(self, frame: Frame) -> Result<String, TypedResponseError> {
        frame.find("tok").map(str::to_string).ok_or_else(|| TypedResponseError::missing("tok"))
    }
}

#[derive(Debug, Clone, PartialEq)]
pub enum Outcome {
    Frames(Vec<OFrame>),
    /// typed results: the token each typed response carried
    Typed(Vec<String>),
    /// typed mixed tuple rendered with Debug
    Mixed(String),
    Art(Option<(B, Option<String>)>),
    ErrorResponse { error: OErr, frames: Vec<OFrame> },
    ConnectionClosed,
    Protocol(String),
    InvalidTyped(String),
}

pub fn oframe(f: &Frame) -> OFrame {
    OFrame { fields: f.fields().map(|(k, v)| (k.to_string(), v.to_string())).collect(), binary: f.binary().map(B::from) }
}

fn outcome_of_err(e: CommandError) -> Outcome {
    match e {
        CommandError::ConnectionClosed => Outcome::ConnectionClosed,
        CommandError::Protocol(MpdProtocolError::InvalidMessage) => Outcome::Protocol("InvalidMessage".into()),
        CommandError::Protocol(MpdProtocolError::Io(e)) => Outcome::Protocol(format!("Io({:?})", e.kind())),
        CommandError::ErrorResponse { error, succesful_frames } => Outcome::ErrorResponse {
            error: OErr {
                code: error.code,
                index: error.command_index,
                command: error.current_command.as_deref().map(str::to_string),
                message: error.message.to_string(),
            },
            frames: succesful_frames.iter().map(oframe).collect(),
        },
        CommandError::InvalidTypedResponse(e) => Outcome::InvalidTyped(e.to_string()),
    }
}

pub async fn perform(client: Arc<Client>, req: Req) -> Outcome {
    match req {
        Req::Raw(tok) => match client.raw_command(Command::new("req").argument(tok.as_str())).await {
            Ok(f) => Outcome::Frames(vec![oframe(&f)]),
            Err(e) => outcome_of_err(e),
        },
        Req::RawList(toks) => {
            let mut it = toks.iter().map(|t| Command::new("req").argument(t.as_str()));
            let mut list = CommandList::new(it.next().expect("non-empty raw list"));
            list.extend(it);
            match client.raw_command_list(list).await {
                Ok(fs) => Outcome::Frames(fs.iter().map(oframe).collect()),
                Err(e) => outcome_of_err(e),
            }
        }
        Req::Typed(tok) => match client.command(Probe(tok)).await {
            Ok(t) => Outcome::Typed(vec![t]),
            Err(e) => outcome_of_err(e),
        },
        Req::TypedVec(toks) => match client.command_list(toks.into_iter().map(Probe).collect::<Vec<_>>()).await {
            Ok(v) => Outcome::Typed(v),
            Err(e) => outcome_of_err(e),
        },
        Req::TypedTuple(toks) => {
            let p = |i: usize| Probe(toks[i].clone());
            let res: Result<Vec<String>, CommandError> = match toks.len() {
                1 => client.command_list((p(0),)).await.map(|(a,)| vec![a]),
                2 => client.command_list((p(0), p(1))).await.map(|(a, b)| vec![a, b]),
                3 => client.command_list((p(0), p(1), p(2))).await.map(|(a, b, c)| vec![a, b, c]),
                4 => client.command_list((p(0), p(1), p(2), p(3))).await.map(|(a, b, c, d)| vec![a, b, c, d]),
                5 => client.command_list((p(0), p(1), p(2), p(3), p(4))).await.map(|(a, b, c, d, e)| vec![a, b, c, d, e]),
                6 => client.command_list((p(0), p(1), p(2), p(3), p(4), p(5))).await.map(|(a, b, c, d, e, f)| vec![a, b, c, d, e, f]),
                7 => client
                    .command_list((p(0), p(1), p(2), p(3), p(4), p(5), p(6)))
                    .await
                    .map(|(a, b, c, d, e, f, g)| vec![a, b, c, d, e, f, g]),
                _ => client
                    .command_list((p(0), p(1), p(2), p(3), p(4), p(5), p(6), p(7)))
                    .await
                    .map(|(a, b, c, d, e, f, g, h)| vec![a, b, c, d, e, f, g, h]),
            };
            match res {
                Ok(v) => Outcome::Typed(v),
                Err(e) => outcome_of_err(e),
            }
        }
        Req::AlbumArt(uri) => match client.album_art(&uri).await {
            Ok(v) => Outcome::Art(v.map(|(b, m)| (B(b.to_vec()), m))),
            Err(e) => outcome_of_err(e),
        },
        Req::MixedTuple(k) => {
            use mpd_client::commands as c;
            let res: Result<String, CommandError> = match k % 5 {
                0 => client.command_list((c::Status, c::Stats)).await.map(|r| format!("{r:?}")),
                1 => client.command_list((c::Stats, c::Status, c::CurrentSong)).await.map(|r| format!("{r:?}")),
                2 => client.command_list((c::CurrentSong, c::Ping, c::Status, c::Stats)).await.map(|r| format!("{r:?}")),
                3 => client
                    .command_list((c::ListChannels, c::GetPlaylists, c::ReplayGainStatus, c::Stats, c::Status))
                    .await
                    .map(|r| format!("{r:?}")),
                _ => client
                    .command_list((c::Ping, c::Status, c::Ping, c::Stats, c::CurrentSong, c::ListChannels, c::ReplayGainStatus, c::GetPlaylists))
                    .await
                    .map(|r| format!("{r:?}")),
            };
            match res {
                Ok(s) => Outcome::Mixed(s),
                Err(e) => outcome_of_err(e),
            }
        }
    }
}

// ---------------------------------------------------------------------------------------------
// driver

#[derive(Debug, Clone, PartialEq)]
pub enum Ev {
    Change(String),
    Closed(String),
}

#[derive(Debug, Clone, PartialEq)]
pub enum ReqState {
    Done(Outcome),
    Cancelled,
    /// did not resolve within one virtual hour after the end of the script
    Hung,
    Panicked,
}

#[derive(Debug, Clone)]
pub struct Quiescent {
    pub t_ms: u64,
    pub after_step: usize,
    pub server_idle: bool,
    pub pending_requests: usize,
    pub last_io_ms: u64,
    pub unread: usize,
    pub hold: bool,
    pub ended: bool,
    pub writes_stalled: bool,
}

#[derive(Debug)]
pub struct Observation {
    pub connect_error: Option<String>,
    pub version: Option<String>,
    /// one entry per Issue step, in issue order: (caller, request, state, pending requests at issue time)
    pub requests: Vec<(u8, Req, ReqState, usize)>,
    pub events: Vec<Ev>,
    /// the event stream returned None
    pub events_ended: bool,
    pub events_dropped: bool,
    pub transcript: Vec<Tx>,
    pub verdicts: Vec<Verdict>,
    pub written: Vec<u8>,
    pub outbox: Vec<u8>,
    pub is_closed: Option<bool>,
    pub io_dropped: bool,
    pub quiescent: Vec<Quiescent>,
    pub panics: u64,
    pub poll_bound_exceeded: bool,
    pub fault_step: Option<usize>,
    pub server_idle_at_end: bool,
    pub unterminated_client_output: Vec<u8>,
    pub final_read_pos: usize,
    pub eof_at: Option<usize>,
    pub eof_seen: bool,
    pub read_err_seen: bool,
    pub write_err_seen: bool,
    pub broken_pipe_seen: bool,
    pub garbage_at: Option<(usize, usize)>,
    pub all_clients_dropped_by_script: bool,
    /// index of the (outer) script step that issued request i
    pub request_steps: Vec<usize>,
}

struct Running {
    handle: tokio::task::JoinHandle<Outcome>,
    cancelled: bool,
}

// ---- callers on a foreign thread -----------------------------------------------------------------

type ForeignFuture = std::pin::Pin<Box<dyn std::future::Future<Output = Outcome> + Send>>;

enum ForeignMsg {
    Run(u64, ForeignFuture, tokio::sync::oneshot::Sender<Outcome>),
    Drop(u64),
}

#[derive(Default)]
struct ForeignState {
    inbox: Vec<ForeignMsg>,
    /// (task, generation of the waker that was woken)
    woken: Vec<(u64, u64)>,
    busy: bool,
    shutdown: bool,
}

/// A minimal executor on its own OS thread. It is as strict as the `Future` contract allows: every poll
/// of a task gets a brand-new waker, wake-ups through the wakers of earlier polls are ignored, and on
/// every other cycle all tasks are polled whether woken or not (so a future that keeps the waker of its
/// first poll is left waiting for a wake-up that no longer counts).
#[derive(Default)]
pub struct Foreign {
    st: Mutex<ForeignState>,
    cv: std::sync::Condvar,
}

struct ForeignWaker(Arc<Foreign>, u64, u64);
impl std::task::Wake for ForeignWaker {
    fn wake(self: Arc<Self>) {
        let mut s = self.0.st.lock().unwrap();
        s.woken.push((self.1, self.2));
        self.0.cv.notify_all();
    }
}

struct ForeignTaskState {
    id: u64,
    fut: ForeignFuture,
    tx: tokio::sync::oneshot::Sender<Outcome>,
    generation: u64,
    due: bool,
}

impl Foreign {
    fn start() -> (Arc<Foreign>, std::thread::JoinHandle<()>) {
        let f = Arc::new(Foreign::default());
        let f2 = f.clone();
        let dispatch = tracing::dispatcher::get_default(|d| d.clone());
        let t = std::thread::spawn(move || {
            crate::core::enter_guard();
            let _d = tracing::dispatcher::set_default(&dispatch);
            f2.serve();
        });
        (f, t)
    }

    fn serve(self: &Arc<Self>) {
        let mut tasks: Vec<ForeignTaskState> = Vec::new();
        let mut cycle = 0u64;
        loop {
            let (msgs, woken) = {
                let mut s = self.st.lock().unwrap();
                while s.inbox.is_empty() && s.woken.is_empty() && !s.shutdown {
                    s = self.cv.wait(s).unwrap();
                }
                if s.shutdown && s.inbox.is_empty() {
                    return;
                }
                s.busy = true;
                (std::mem::take(&mut s.inbox), std::mem::take(&mut s.woken))
            };
            for m in msgs {
                match m {
                    ForeignMsg::Run(id, fut, tx) => tasks.push(ForeignTaskState { id, fut, tx, generation: 0, due: true }),
                    ForeignMsg::Drop(id) => tasks.retain(|t| t.id != id),
                }
            }
            for (id, generation) in woken {
                if let Some(t) = tasks.iter_mut().find(|t| t.id == id) {
                    // only the waker handed out by the most recent poll counts
                    if t.generation == generation {
                        t.due = true;
                    }
                }
            }
            // every other cycle every task is polled, woken or not (spurious polls are legal; together with
            // the fresh waker per poll this makes the wakers of all earlier polls stale)
            cycle += 1;
            if cycle % 2 == 0 {
                tasks.iter_mut().for_each(|t| t.due = true);
            }
            let mut i = 0;
            while i < tasks.len() {
                if !tasks[i].due {
                    i += 1;
                    continue;
                }
                tasks[i].due = false;
                tasks[i].generation += 1;
                let waker = Waker::from(Arc::new(ForeignWaker(self.clone(), tasks[i].id, tasks[i].generation)));
                let mut cx = Context::from_waker(&waker);
                let polled = std::panic::catch_unwind(std::panic::AssertUnwindSafe(|| tasks[i].fut.as_mut().poll(&mut cx)));
                match polled {
                    Ok(Poll::Pending) => i += 1,
                    Ok(Poll::Ready(o)) => {
                        let t = tasks.remove(i);
                        let _ = t.tx.send(o);
                    }
                    // the sender is dropped without a value: the proxy task reports a panic
                    Err(_) => drop(tasks.remove(i)),
                }
            }
            self.st.lock().unwrap().busy = false;
            self.cv.notify_all();
        }
    }

    fn post(&self, m: ForeignMsg) {
        let mut s = self.st.lock().unwrap();
        s.inbox.push(m);
        self.cv.notify_all();
    }

    /// Blocks (the calling thread, not the runtime) until the executor has nothing left to react to.
    pub fn wait_idle(&self) {
        let mut s = self.st.lock().unwrap();
        while !s.inbox.is_empty() || !s.woken.is_empty() || s.busy {
            s = self.cv.wait(s).unwrap();
        }
    }

    fn shutdown(&self) {
        let mut s = self.st.lock().unwrap();
        s.shutdown = true;
        self.cv.notify_all();
    }
}

/// Lives inside the proxy task of a foreign request: dropping it (completion or `abort`) makes the
/// executor thread drop the caller's future.
struct ForeignTask(Arc<Foreign>, u64);
impl Drop for ForeignTask {
    fn drop(&mut self) {
        self.0.post(ForeignMsg::Drop(self.1));
    }
}

async fn settle(h: &Handle, done: &Arc<Mutex<u64>>) {
    let mut stable = 0;
    let mut last = (h.lock().unwrap().activity, *done.lock().unwrap());
    let mut rounds = 0;
    let foreign = h.lock().unwrap().foreign.clone();
    while stable < 4 && rounds < 100_000 {
        tokio::task::yield_now().await;
        if let Some(f) = &foreign {
            f.wait_idle();
        }
        let now = (h.lock().unwrap().activity, *done.lock().unwrap());
        if now == last {
            stable += 1;
        } else {
            stable = 0;
            last = now;
        }
        rounds += 1;
    }
}

pub enum Connect {
    Plain,
    Password(Password),
    PasswordOpt(Option<Password>),
}

pub fn run(script: &Script) -> Observation {
    run_with(script, Connect::Plain)
}

pub fn run_with(script: &Script, connect: Connect) -> Observation {
    let mut seed_bytes = [0u8; 32];
    let mut s = script.sched_seed;
    for c in seed_bytes.chunks_mut(8) {
        s = crate::core::splitmix64(s);
        c.copy_from_slice(&s.to_le_bytes());
    }
    let rt = tokio::runtime::Builder::new_current_thread()
        .enable_time()
        .start_paused(true)
        .rng_seed(tokio::runtime::RngSeed::from_bytes(&seed_bytes))
        .build()
        .expect("runtime");
    let panics_before = crate::core::panic_count();
    let mut obs = rt.block_on(drive(script, connect));
    drop(rt);
    obs.panics = crate::core::panic_count() - panics_before;
    obs
}

async fn drive(script: &Script, connect: Connect) -> Observation {
    let start = tokio::time::Instant::now();
    let password = match &connect {
        Connect::Plain => None,
        Connect::Password(p) => Some(p.clone()),
        Connect::PasswordOpt(p) => p.clone(),
    };
    let (io, h) = new_io(script, password.clone());
    h.lock().unwrap().start = Some(start);
    let foreign = script.foreign_callers.then(Foreign::start);
    if let Some((f, _)) = &foreign {
        h.lock().unwrap().foreign = Some(f.clone());
    }
    let done: Arc<Mutex<u64>> = Arc::new(Mutex::new(0));
    let mut obs = Observation {
        connect_error: None,
        version: None,
        requests: Vec::new(),
        events: Vec::new(),
        events_ended: false,
        events_dropped: false,
        transcript: Vec::new(),
        verdicts: Vec::new(),
        written: Vec::new(),
        outbox: Vec::new(),
        is_closed: None,
        io_dropped: false,
        quiescent: Vec::new(),
        panics: 0,
        poll_bound_exceeded: false,
        fault_step: None,
        server_idle_at_end: false,
        unterminated_client_output: Vec::new(),
        final_read_pos: 0,
        eof_at: None,
        eof_seen: false,
        read_err_seen: false,
        write_err_seen: false,
        broken_pipe_seen: false,
        garbage_at: None,
        all_clients_dropped_by_script: false,
        request_steps: Vec::new(),
    };

    let connected = match &connect {
        Connect::Plain => Client::connect(io).await.map_err(|e| format!("{e:?}")),
        Connect::Password(p) => Client::connect_with_password(io, &p.password).await.map_err(|e| format!("{e:?}")),
        Connect::PasswordOpt(p) => Client::connect_with_password_opt(io, p.as_ref().map(|p| p.password.as_str())).await.map_err(|e| format!("{e:?}")),
    };
    let (root, mut events): (Client, ConnectionEvents) = match connected {
        Ok(c) => c,
        Err(e) => {
            obs.connect_error = Some(e);
            settle(&h, &done).await;
            if let Some((f, thread)) = foreign {
                h.lock().unwrap().foreign = None;
                f.shutdown();
                let _ = thread.join();
            }
            finish(&mut obs, &h);
            return obs;
        }
    };
    obs.version = Some(root.protocol_version().to_string());

    // an unrelated connection on the same thread: before every step it receives one more line of a
    // response that never ends and abandons the receive (cancel-safe, so harmless - unless parser
    // state is shared between connections)
    let noise_tick = Arc::new(tokio::sync::Notify::new());
    let noise = if script.noise_connection {
        let tick = noise_tick.clone();
        Some(tokio::spawn(async move {
            let Ok(mut conn) = mpd_protocol::AsyncConnection::connect(NoiseIo { greeted: false, give: true, at: 0 }).await else { return };
            loop {
                tokio::select! {
                    biased;
                    _ = conn.receive() => {}
                    _ = std::future::ready(()) => {}
                }
                tick.notified().await;
            }
        }))
    } else {
        None
    };

    // event collector
    let collected: Arc<Mutex<(Vec<Ev>, bool)>> = Arc::new(Mutex::new((Vec::new(), false)));
    let gate = Arc::new(tokio::sync::Notify::new());
    let lazy = script.lazy_events;
    let ev_tick = Arc::new(tokio::sync::Notify::new());
    let cancel_next = script.events_next_cancelled;
    let collector = {
        let collected = collected.clone();
        let h = h.clone();
        let gate = gate.clone();
        let ev_tick = ev_tick.clone();
        tokio::spawn(async move {
            if lazy {
                gate.notified().await;
            }
            loop {
                let e = if cancel_next {
                    loop {
                        tokio::select! {
                            biased;
                            e = events.next() => break e,
                            _ = ev_tick.notified() => {}
                        }
                    }
                } else {
                    events.next().await
                };
                let mut c = collected.lock().unwrap();
                h.lock().unwrap().activity += 1;
                match e {
                    Some(ConnectionEvent::SubsystemChange(s)) => c.0.push(Ev::Change(s.as_str().to_string())),
                    Some(ConnectionEvent::ConnectionClosed(e)) => c.0.push(Ev::Closed(format!("{e:?}"))),
                    None => {
                        c.1 = true;
                        break;
                    }
                }
            }
        })
    };

    let mut root = Some(root);
    // even callers issue all their requests through ONE handle (shared by reference between their
    // request futures), odd callers through a fresh clone of their handle per request
    let mut callers: HashMap<u8, Arc<Client>> = HashMap::new();
    let mut running: Vec<Running> = Vec::new();
    let mut all_dropped = false;

    settle(&h, &done).await;

    for (si, outer) in script.steps.iter().enumerate() {
        noise_tick.notify_one();
        ev_tick.notify_one();
        tokio::task::yield_now().await;
        h.lock().unwrap().set_now(start.elapsed().as_millis() as u64);
        let inner: Vec<&Step> = match outer {
            Step::Together(v) => v.iter().collect(),
            other => vec![other],
        };
        for step in inner {
        match step {
            Step::Together(_) => {}
            Step::Issue { caller, req } => {
                let share = |c: &Arc<Client>| if caller % 2 == 0 { Arc::clone(c) } else { Arc::new(Client::clone(c)) };
                let client = match callers.get(caller) {
                    Some(c) => Some(share(c)),
                    None => match (&root, all_dropped) {
                        (Some(r), false) => {
                            let c = Arc::new(r.clone());
                            callers.insert(*caller, c.clone());
                            Some(share(&c))
                        }
                        _ => None,
                    },
                };
                let Some(client) = client else { continue };
                let pending = running.iter().filter(|r| !r.cancelled && !r.handle.is_finished()).count();
                let done2 = done.clone();
                let req2 = req.clone();
                let handle = if let Some((f, _)) = &foreign {
                    // the caller's future lives on the foreign thread; a proxy task here waits for its outcome
                    let (tx, rx) = tokio::sync::oneshot::channel();
                    let id = obs.requests.len() as u64;
                    f.post(ForeignMsg::Run(id, Box::pin(perform(client, req2)), tx));
                    f.wait_idle();
                    let task = ForeignTask(f.clone(), id);
                    tokio::spawn(async move {
                        let _task = task;
                        let out = rx.await;
                        *done2.lock().unwrap() += 1;
                        match out {
                            Ok(o) => o,
                            Err(_) => std::panic::resume_unwind(Box::new("the caller's future panicked on the foreign thread")),
                        }
                    })
                } else {
                    tokio::spawn(async move {
                        let out = perform(client, req2).await;
                        *done2.lock().unwrap() += 1;
                        out
                    })
                };
                obs.requests.push((*caller, req.clone(), ReqState::Hung, pending));
                obs.request_steps.push(si);
                running.push(Running { handle, cancelled: false });
            }
            Step::Cancel(n) => {
                if !running.is_empty() {
                    let i = (*n as usize) % running.len();
                    if !running[i].handle.is_finished() {
                        running[i].handle.abort();
                        running[i].cancelled = true;
                        h.lock().unwrap().activity += 1;
                    }
                }
            }
            Step::Change(names) => h.lock().unwrap().change(names),
            Step::Advance(ms) => {
                if script.real_ms_per_advance > 0 && *ms > 0 {
                    std::thread::sleep(Duration::from_millis((*ms).min(u64::from(script.real_ms_per_advance))));
                }
                tokio::time::advance(Duration::from_millis(*ms)).await;
                h.lock().unwrap().activity += 1;
            }
            Step::Hold => h.lock().unwrap().hold = true,
            Step::Release(n) => h.lock().unwrap().release(*n),
            Step::ReleaseAll => h.lock().unwrap().release_all(),
            Step::DropCaller(c) => {
                callers.remove(c);
            }
            Step::DropAllClients => {
                callers.clear();
                root = None;
                all_dropped = true;
                obs.all_clients_dropped_by_script = true;
                h.lock().unwrap().activity += 1;
            }
            Step::DropEvents => {
                if !collector.is_finished() {
                    collector.abort();
                    obs.events_dropped = true;
                }
            }
            Step::Fault(f) => {
                h.lock().unwrap().arm(f);
                obs.fault_step = Some(si);
            }
            Step::StallWrites(k) => h.lock().unwrap().stall_writes(*k),
            Step::ResumeWrites => h.lock().unwrap().resume_writes(),
        }
        }
        settle(&h, &done).await;
        h.lock().unwrap().set_now(start.elapsed().as_millis() as u64);
        let s = h.lock().unwrap();
        obs.quiescent.push(Quiescent {
            t_ms: start.elapsed().as_millis() as u64,
            after_step: si,
            server_idle: s.server.idle_waiting,
            pending_requests: running.iter().filter(|r| !r.cancelled && !r.handle.is_finished()).count(),
            last_io_ms: s.last_io_ms,
            unread: s.unread(),
            hold: s.hold,
            ended: s.dropped || s.eof_at.is_some() || s.read_err_at.is_some() || s.write_err_countdown.is_some() || s.write_err_seen,
            writes_stalled: s.write_stalled || s.stall_after.is_some(),
        });
    }

    if let Some(n) = noise {
        n.abort();
    }
    // epilogue: let everything drain, then require every request to resolve in virtual time
    if !script.events_polled_last {
        gate.notify_one();
    }
    h.lock().unwrap().resume_writes();
    h.lock().unwrap().release_all();
    settle(&h, &done).await;
    for _ in 0..3 {
        tokio::time::advance(Duration::from_millis(150)).await;
        h.lock().unwrap().set_now(start.elapsed().as_millis() as u64);
        settle(&h, &done).await;
    }
    {
        let s = h.lock().unwrap();
        obs.quiescent.push(Quiescent {
            t_ms: start.elapsed().as_millis() as u64,
            after_step: script.steps.len(),
            server_idle: s.server.idle_waiting,
            pending_requests: running.iter().filter(|r| !r.cancelled && !r.handle.is_finished()).count(),
            last_io_ms: s.last_io_ms,
            unread: s.unread(),
            hold: s.hold,
            ended: s.dropped || s.eof_at.is_some() || s.read_err_at.is_some() || s.write_err_countdown.is_some() || s.write_err_seen,
            writes_stalled: s.write_stalled || s.stall_after.is_some(),
        });
    }
    for (i, r) in running.into_iter().enumerate() {
        let state = if r.cancelled {
            let _ = r.handle.await;
            ReqState::Cancelled
        } else {
            match tokio::time::timeout(Duration::from_secs(3600), r.handle).await {
                Err(_) => ReqState::Hung,
                Ok(Err(e)) if e.is_panic() => ReqState::Panicked,
                Ok(Err(_)) => ReqState::Cancelled,
                Ok(Ok(o)) => ReqState::Done(o),
            }
        };
        obs.requests[i].2 = state;
    }
    settle(&h, &done).await;
    obs.is_closed = callers.values().next().map(|c| c.is_connection_closed()).or(root.as_ref().map(Client::is_connection_closed));
    obs.server_idle_at_end = h.lock().unwrap().server.idle_waiting;
    if script.events_polled_last {
        gate.notify_one();
        settle(&h, &done).await;
    }
    // finally let go of every handle: the loop must end and release the transport
    callers.clear();
    drop(root);
    settle(&h, &done).await;
    if !obs.events_dropped {
        let _ = tokio::time::timeout(Duration::from_secs(3600), collector).await;
    }
    settle(&h, &done).await;
    let c = collected.lock().unwrap();
    obs.events = c.0.clone();
    obs.events_ended = c.1;
    drop(c);
    if let Some((f, thread)) = foreign {
        h.lock().unwrap().foreign = None;
        f.shutdown();
        let _ = thread.join();
    }
    finish(&mut obs, &h);
    obs
}

fn finish(obs: &mut Observation, h: &Handle) {
    let s = h.lock().unwrap();
    obs.transcript = s.server.transcript.clone();
    obs.verdicts = s.server.verdicts.clone();
    obs.written = s.all_written.clone();
    obs.outbox = s.outbox.clone();
    obs.io_dropped = s.dropped;
    obs.poll_bound_exceeded = s.polls > s.poll_bound;
    obs.unterminated_client_output = s.inbox.clone();
    obs.final_read_pos = s.read_pos;
    obs.eof_at = s.eof_at;
    obs.eof_seen = s.eof_seen;
    obs.read_err_seen = s.read_err_seen;
    obs.write_err_seen = s.write_err_seen;
    obs.broken_pipe_seen = s.broken_pipe_seen;
    obs.garbage_at = s.garbage_at;
}

// ---------------------------------------------------------------------------------------------
// expectations shared by the judges

pub fn frame_for(tok: &str, fields: &[(String, String)], binary: &Option<B>) -> OFrame {
    let mut f = AFrame { items: vec![Item::Field("tok".into(), tok.to_string())] };
    f.items.extend(fields.iter().map(|(k, v)| Item::Field(k.clone(), v.clone())));
    if let Some(b) = binary {
        f.items.push(Item::Binary(b.clone()));
    }
    f.expected()
}

/// What a request over `tokens` must resolve to according to the reply table.
pub fn expected_frames(replies: &HashMap<String, ReplySpec>, tokens: &[String], command: &str) -> Result<Vec<OFrame>, (OErr, Vec<OFrame>)> {
    let mut frames = Vec::new();
    for (i, t) in tokens.iter().enumerate() {
        match replies.get(t) {
            Some(ReplySpec::Ok { fields, binary }) => frames.push(frame_for(t, fields, binary)),
            Some(ReplySpec::Ack { code, message, .. }) => {
                let ack = Ack { code: *code, index: i as u64, command: command.to_string(), message: message.clone() };
                return Err((ack.expected(), frames));
            }
            None => {
                let ack = Ack { code: 50, index: i as u64, command: command.to_string(), message: "no such token".into() };
                return Err((ack.expected(), frames));
            }
        }
    }
    Ok(frames)
}

