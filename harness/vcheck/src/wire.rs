//! Wire model and independent encoder, written from the MPD protocol grammar (DESIGN.md 3.3).

use proptest::prelude::*;
use serde::{Deserialize, Serialize};

use crate::core::B;

#[derive(Clone, Debug, PartialEq, Eq, Serialize, Deserialize)]
pub enum Item {
    Field(String, String),
    Binary(B),
}

/// One frame: key/value lines in order and at most one binary payload.
#[derive(Clone, Debug, PartialEq, Eq, Serialize, Deserialize, Default)]
pub struct AFrame {
    pub items: Vec<Item>,
}

#[derive(Clone, Debug, PartialEq, Eq, Serialize, Deserialize)]
pub struct Ack {
    pub code: u64,
    pub index: u64,
    /// empty = `{}`
    pub command: String,
    pub message: String,
}

#[derive(Clone, Debug, PartialEq, Eq, Serialize, Deserialize)]
pub enum AResp {
    Single(AFrame),
    /// command_list_ok reply: n >= 1 frames each closed by list_OK, then OK
    List(Vec<AFrame>),
    /// completed frames (each closed by list_OK), output of the failing command, ACK line
    Failed { completed: Vec<AFrame>, partial: AFrame, ack: Ack },
}

// ---- what a decoder must report -----------------------------------------------------------------

#[derive(Clone, Debug, PartialEq, Eq, Serialize, Deserialize, Default)]
pub struct OFrame {
    pub fields: Vec<(String, String)>,
    pub binary: Option<B>,
}

#[derive(Clone, Debug, PartialEq, Eq, Serialize, Deserialize)]
pub struct OErr {
    pub code: u64,
    pub index: u64,
    pub command: Option<String>,
    pub message: String,
}

#[derive(Clone, Debug, PartialEq, Eq, Serialize, Deserialize, Default)]
pub struct OResp {
    pub frames: Vec<OFrame>,
    pub error: Option<OErr>,
}

impl AFrame {
    pub fn expected(&self) -> OFrame {
        let mut f = OFrame::default();
        for it in &self.items {
            match it {
                Item::Field(k, v) => f.fields.push((k.clone(), v.clone())),
                Item::Binary(b) => f.binary = Some(b.clone()),
            }
        }
        f
    }
    pub fn fields(pairs: &[(&str, &str)]) -> AFrame {
        AFrame { items: pairs.iter().map(|(k, v)| Item::Field(k.to_string(), v.to_string())).collect() }
    }
    pub fn has_binary(&self) -> bool {
        self.items.iter().any(|i| matches!(i, Item::Binary(_)))
    }
}

impl Ack {
    pub fn expected(&self) -> OErr {
        OErr {
            code: self.code,
            index: self.index,
            command: if self.command.is_empty() { None } else { Some(self.command.clone()) },
            message: self.message.clone(),
        }
    }
    pub fn line(&self) -> Vec<u8> {
        format!("ACK [{}@{}] {{{}}} {}\n", self.code, self.index, self.command, self.message).into_bytes()
    }
}

impl AResp {
    pub fn expected(&self) -> OResp {
        match self {
            AResp::Single(f) => OResp { frames: vec![f.expected()], error: None },
            AResp::List(fs) => OResp { frames: fs.iter().map(AFrame::expected).collect(), error: None },
            AResp::Failed { completed, ack, .. } => OResp {
                frames: completed.iter().map(AFrame::expected).collect(),
                error: Some(ack.expected()),
            },
        }
    }
}

// ---- encoder ---------------------------------------------------------------------------------------

#[derive(Clone, Copy, Debug, PartialEq, Eq, Hash)]
pub enum Loc {
    /// offset 0 or just after a complete response
    Boundary,
    /// at a line start inside a response, directly after a list_OK line
    BetweenListFrames,
    /// at a line start inside a response (complete lines only so far)
    BetweenLines,
    InKey,
    InSeparator,
    InValue,
    InBinaryHeader,
    InPayload,
    /// all payload bytes present, its terminating LF missing
    BeforePayloadLf,
    InTerminatorLine,
    InAckLine,
}

impl Loc {
    pub fn name(self) -> &'static str {
        match self {
            Loc::Boundary => "cut_boundary",
            Loc::BetweenListFrames => "cut_between_list_frames",
            Loc::BetweenLines => "cut_between_lines",
            Loc::InKey => "cut_in_key",
            Loc::InSeparator => "cut_in_separator",
            Loc::InValue => "cut_in_value",
            Loc::InBinaryHeader => "cut_in_binary_header",
            Loc::InPayload => "cut_in_payload",
            Loc::BeforePayloadLf => "cut_before_payload_lf",
            Loc::InTerminatorLine => "cut_in_ok_or_list_ok",
            Loc::InAckLine => "cut_in_ack_line",
        }
    }
}

#[derive(Clone, Copy, Debug, PartialEq, Eq)]
enum SegKind {
    Field { key_len: usize },
    BinaryHeader,
    Payload,
    PayloadLf,
    Ok,
    ListOk,
    Ack,
}

#[derive(Clone, Debug)]
struct Segm {
    start: usize,
    end: usize,
    kind: SegKind,
}

#[derive(Clone, Debug, Default)]
pub struct Encoded {
    pub bytes: Vec<u8>,
    /// offsets just after each response (the first boundary, 0, is implicit)
    pub boundaries: Vec<usize>,
    segs: Vec<Segm>,
}

impl Encoded {
    fn push(&mut self, data: &[u8], kind: SegKind) {
        let start = self.bytes.len();
        self.bytes.extend_from_slice(data);
        self.segs.push(Segm { start, end: self.bytes.len(), kind });
    }

    fn frame(&mut self, f: &AFrame) {
        for it in &f.items {
            match it {
                Item::Field(k, v) => {
                    let line = format!("{k}: {v}\n");
                    self.push(line.as_bytes(), SegKind::Field { key_len: k.len() });
                }
                Item::Binary(b) => {
                    self.push(format!("binary: {}\n", b.len()).as_bytes(), SegKind::BinaryHeader);
                    if !b.is_empty() {
                        self.push(b, SegKind::Payload);
                    }
                    self.push(b"\n", SegKind::PayloadLf);
                }
            }
        }
    }

    pub fn response(&mut self, r: &AResp) {
        match r {
            AResp::Single(f) => {
                self.frame(f);
                self.push(b"OK\n", SegKind::Ok);
            }
            AResp::List(fs) => {
                for f in fs {
                    self.frame(f);
                    self.push(b"list_OK\n", SegKind::ListOk);
                }
                self.push(b"OK\n", SegKind::Ok);
            }
            AResp::Failed { completed, partial, ack } => {
                for f in completed {
                    self.frame(f);
                    self.push(b"list_OK\n", SegKind::ListOk);
                }
                self.frame(partial);
                self.push(&ack.line(), SegKind::Ack);
            }
        }
        self.boundaries.push(self.bytes.len());
    }

    pub fn is_boundary(&self, off: usize) -> bool {
        off == 0 || self.boundaries.contains(&off)
    }

    /// Number of complete responses that end at or before `off`.
    pub fn responses_before(&self, off: usize) -> usize {
        self.boundaries.iter().filter(|b| **b <= off).count()
    }

    /// Classify a cut position (0 ..= len).
    pub fn location(&self, off: usize) -> Loc {
        if self.is_boundary(off) {
            return Loc::Boundary;
        }
        let idx = self.segs.partition_point(|s| s.end <= off);
        let seg = &self.segs[idx];
        if off == seg.start {
            return match seg.kind {
                SegKind::PayloadLf => Loc::BeforePayloadLf,
                SegKind::Payload => Loc::InPayload,
                _ => {
                    if idx > 0 && self.segs[idx - 1].kind == SegKind::ListOk {
                        Loc::BetweenListFrames
                    } else {
                        Loc::BetweenLines
                    }
                }
            };
        }
        let rel = off - seg.start;
        match seg.kind {
            SegKind::Field { key_len } => {
                if rel <= key_len {
                    Loc::InKey
                } else if rel < key_len + 2 {
                    Loc::InSeparator
                } else {
                    Loc::InValue
                }
            }
            SegKind::BinaryHeader => Loc::InBinaryHeader,
            SegKind::Payload => Loc::InPayload,
            SegKind::PayloadLf => unreachable!("1-byte segment"),
            SegKind::Ok | SegKind::ListOk => Loc::InTerminatorLine,
            SegKind::Ack => Loc::InAckLine,
        }
    }

    /// Offsets of all structural edges (segment starts/ends), for sampling cuts in long streams.
    pub fn edges(&self) -> Vec<usize> {
        let mut v: Vec<usize> = self.segs.iter().flat_map(|s| [s.start, s.end]).collect();
        v.sort_unstable();
        v.dedup();
        v
    }
}

pub fn encode(resps: &[AResp]) -> Encoded {
    let mut e = Encoded::default();
    for r in resps {
        e.response(r);
    }
    e
}

// ---- generators ------------------------------------------------------------------------------------

pub fn key() -> impl Strategy<Value = String> {
    prop_oneof![
        6 => "[A-Za-z_-]{1,12}",
        1 => "[A-Za-z_-]{13,24}",
        1 => Just("OK".to_string()),
        1 => Just("list_OK".to_string()),
        1 => Just("ACK".to_string()),
        1 => Just("binary".to_string()),
        // proper prefixes of the protocol keywords: a streaming parser must not commit early
        2 => prop_oneof![
            Just("l"), Just("li"), Just("list"), Just("list_"), Just("list_O"), Just("b"), Just("bi"), Just("binar"), Just("O"), Just("A"), Just("AC"),
            Just("OKK"), Just("ACKK"), Just("binaryy"), Just("list_OKK")
        ]
        .prop_map(str::to_string),
        // families of long keys that differ in one character only (same length, same head and tail)
        2 => (
            prop_oneof![Just("MUSICBRAINZ_TRACKID"), Just("AlbumArtistSort"), Just("Last-Modified"), Just("playlistlength"), Just("abcdefghijklmnop"), Just("db_playtime")],
            prop::option::of((any::<u16>(), prop::char::range('a', 'z'))),
        )
            .prop_map(|(base, m)| {
                let mut cs: Vec<char> = base.chars().collect();
                if let Some((at, c)) = m {
                    let i = crate::core::pick_idx(at, cs.len());
                    cs[i] = if cs[i].is_ascii_uppercase() { c.to_ascii_uppercase() } else { c };
                }
                cs.into_iter().collect::<String>()
            }),
        2 => prop_oneof![Just("file"), Just("changed"), Just("Artist"), Just("Last-Modified"), Just("size"), Just("type")]
            .prop_map(str::to_string),
    ]
}

fn utf8_char_no_lf() -> impl Strategy<Value = char> {
    prop_oneof![
        10 => prop::char::range(' ', '~'),
        1 => Just('\0'),
        1 => Just('\r'),
        1 => Just('\t'),
        2 => prop::char::range('\u{80}', '\u{2fff}'),
        1 => prop::char::range('\u{10000}', '\u{1ffff}'),
    ]
}

pub fn value(max_long: usize) -> impl Strategy<Value = String> {
    prop_oneof![
        2 => Just(String::new()),
        8 => prop::collection::vec(utf8_char_no_lf(), 1..24usize).prop_map(|v| v.into_iter().collect::<String>()),
        1 => Just("OK".to_string()),
        1 => Just("list_OK".to_string()),
        1 => Just("ACK [5@0] {} x".to_string()),
        1 => Just("binary: 3".to_string()),
        1 => "[0-9]{1,24}",
        1 => Just(" leading and trailing ".to_string()),
        1 => prop::collection::vec(utf8_char_no_lf(), 200..max_long.max(201)).prop_map(|v| v.into_iter().collect::<String>()),
    ]
}

fn lookalike() -> impl Strategy<Value = Vec<u8>> {
    prop_oneof![
        Just(b"\nOK\n".to_vec()),
        Just(b"OK\n".to_vec()),
        Just(b"list_OK\n".to_vec()),
        Just(b"ACK [5@0] {} x\n".to_vec()),
        Just(b"binary: 2\nab\n".to_vec()),
        Just(b"\n".to_vec()),
        Just(vec![0u8, 0xff, 0xfe, b'\n']),
        Just(b"foo: bar\n".to_vec()),
    ]
}

pub const EDGE_SIZES: [usize; 14] =
    [4000, 4090, 4095, 4096, 4097, 4100, 8191, 8192, 8193, 12288, 16383, 16384, 16385, 20000];

pub fn payload(max: usize) -> impl Strategy<Value = B> {
    let big = prop_oneof![
        3 => (0..EDGE_SIZES.len()).prop_map(|i| EDGE_SIZES[i]),
        1 => 300..max.max(301),
    ];
    prop_oneof![
        1 => Just(B(Vec::new())),
        5 => prop::collection::vec(any::<u8>(), 1..40usize).prop_map(B),
        3 => (prop::collection::vec(any::<u8>(), 0..12usize), lookalike(), prop::collection::vec(any::<u8>(), 0..12usize))
            .prop_map(|(a, b, c)| B([a, b, c].concat())),
        2 => (big, any::<u8>(), any::<u8>(), lookalike()).prop_map(move |(n, a, step, l)| {
            let n = n.min(max);
            let mut v: Vec<u8> = (0..n).map(|i| a.wrapping_add((i as u8).wrapping_mul(step | 1))).collect();
            if n > l.len() + 10 {
                let at = n / 3;
                v[at..at + l.len()].copy_from_slice(&l);
            }
            B(v)
        }),
        // a payload that is nothing but one protocol look-alike repeated, starting at a random phase:
        // wherever a buffer edge, a read boundary or a chunk boundary falls, a terminator-like byte
        // sequence sits right in front of it
        2 => (big2(max), lookalike_tile(), any::<u8>()).prop_map(move |(n, tile, phase)| {
            let n = n.min(max);
            let off = phase as usize % tile.len();
            B((0..n).map(|i| tile[(i + off) % tile.len()]).collect())
        }),
    ]
}

fn big2(max: usize) -> impl Strategy<Value = usize> {
    prop_oneof![
        3 => (0..EDGE_SIZES.len()).prop_map(|i| EDGE_SIZES[i]),
        2 => 300..max.max(301),
        1 => 3..300usize,
    ]
}

fn lookalike_tile() -> impl Strategy<Value = Vec<u8>> {
    prop_oneof![
        4 => Just(b"OK\n".to_vec()),
        2 => Just(b"\nOK\n".to_vec()),
        2 => Just(b"list_OK\n".to_vec()),
        1 => Just(b"ACK [5@0] {} x\n".to_vec()),
        1 => Just(b"binary: 3\n".to_vec()),
        1 => Just(b"\n".to_vec()),
        1 => Just(b"a: b\n".to_vec()),
    ]
}

pub fn frame(max_fields: usize, max_payload: usize, max_value: usize) -> impl Strategy<Value = AFrame> {
    (
        prop::collection::vec((key(), value(max_value)), 0..=max_fields),
        prop::option::weighted(0.3, payload(max_payload)),
        any::<u16>(),
    )
        .prop_map(|(fields, bin, pos)| {
            let mut items: Vec<Item> = fields
                .into_iter()
                .map(|(k, mut v)| {
                    if k == "binary" && !v.is_empty() && v.bytes().all(|b| b.is_ascii_digit()) {
                        // "binary: <digits>" *is* the binary header, not a pair
                        v.insert(0, 'x');
                    }
                    Item::Field(k, v)
                })
                .collect();
            if let Some(b) = bin {
                let at = crate::core::pick_idx(pos, items.len() + 1);
                items.insert(at, Item::Binary(b));
            }
            AFrame { items }
        })
}

pub fn ack() -> impl Strategy<Value = Ack> {
    (
        prop_oneof![3 => 0..60u64, 1 => any::<u64>()],
        prop_oneof![3 => 0..8u64, 1 => any::<u64>()],
        prop_oneof![1 => Just(String::new()), 3 => "[A-Za-z_]{1,24}"],
        value(300),
    )
        .prop_map(|(code, index, command, message)| Ack { code, index, command, message })
}

pub fn response(max_payload: usize, max_value: usize) -> impl Strategy<Value = AResp> {
    let f = || frame(6, max_payload, max_value);
    prop_oneof![
        5 => f().prop_map(AResp::Single),
        3 => prop::collection::vec(f(), 1..=5usize).prop_map(AResp::List),
        3 => (prop::collection::vec(f(), 0..=4usize), f(), ack())
            .prop_map(|(completed, partial, ack)| AResp::Failed { completed, partial, ack }),
    ]
}

pub fn responses(max_n: usize, max_payload: usize, max_value: usize) -> impl Strategy<Value = Vec<AResp>> {
    prop::collection::vec(response(max_payload, max_value), 1..=max_n)
}

/// A frame with many distinct keys (field-name interning) and many lines.
pub fn wide_frame() -> impl Strategy<Value = AFrame> {
    (prop_oneof![Just(17usize), Just(64), Just(65), Just(129), Just(257), Just(1025), 20..600usize], any::<u8>()).prop_map(|(n, salt)| AFrame {
        items: (0..n)
            .map(|i| {
                let mut k = String::from("k");
                let mut x = i * 7 + salt as usize;
                loop {
                    k.push((b'a' + (x % 26) as u8) as char);
                    x /= 26;
                    if x == 0 {
                        break;
                    }
                }
                Item::Field(if i % 5 == 4 { "dup".to_string() } else { k }, format!("v{i}"))
            })
            .collect(),
    })
}

/// Many small responses on one connection (state carried from response to response).
pub fn long_sequence() -> impl Strategy<Value = Vec<AResp>> {
    prop_oneof![
        3 => prop::collection::vec(response(12, 12), 7..=60usize),
        1 => prop::collection::vec(prop_oneof![3 => response(12, 12), 1 => wide_frame().prop_map(AResp::Single)], 2..=12usize),
        1 => prop::collection::vec(response(12, 12), 100..=300usize),
    ]
}

/// A response whose payload makes the receive buffer double past 64 KiB (4096 -> ... -> 131072).
pub fn huge_response() -> impl Strategy<Value = AResp> {
    (prop_oneof![Just(61_440usize), Just(65_535), Just(65_536), Just(70_000), Just(100_000), Just(131_072), Just(140_000)], any::<u8>(), any::<bool>()).prop_map(
        |(n, a, field_first)| {
            let data: Vec<u8> = (0..n).map(|i| a.wrapping_add((i as u8).wrapping_mul(31))).collect();
            let mut items = vec![Item::Binary(B(data))];
            if field_first {
                items.insert(0, Item::Field("size".into(), n.to_string()));
            }
            AResp::Single(AFrame { items })
        },
    )
}

/// `responses`, and in 1 case of `one_in` a huge response inserted at a generated position.
pub fn responses_maybe_huge(max_n: usize, max_payload: usize, max_value: usize, one_in: u32) -> impl Strategy<Value = Vec<AResp>> {
    (responses(max_n, max_payload, max_value), prop::option::weighted(1.0 / one_in as f64, (huge_response(), any::<u16>()))).prop_map(|(mut v, huge)| {
        if let Some((h, at)) = huge {
            let i = crate::core::pick_idx(at, v.len() + 1);
            v.insert(i, h);
        }
        v
    })
}

/// Classification used for the non-trivial rules of C02/C03.
pub fn mimics_keyword(r: &AResp) -> bool {
    fn fr(f: &AFrame) -> bool {
        f.items.iter().any(|i| match i {
            Item::Field(k, v) => {
                ["OK", "list_OK", "ACK", "binary"].contains(&k.as_str())
                    || v == "OK"
                    || v == "list_OK"
                    || v.starts_with("ACK ")
                    || v.starts_with("binary: ")
            }
            Item::Binary(_) => false,
        })
    }
    match r {
        AResp::Single(f) => fr(f),
        AResp::List(fs) => fs.iter().any(fr),
        AResp::Failed { completed, partial, ack } => {
            completed.iter().any(fr) || fr(partial) || ack.message == "OK" || ack.message.starts_with("ACK ")
        }
    }
}

pub fn has_payload(r: &AResp) -> bool {
    match r {
        AResp::Single(f) => f.has_binary(),
        AResp::List(fs) => fs.iter().any(AFrame::has_binary),
        AResp::Failed { completed, partial, .. } => completed.iter().any(AFrame::has_binary) || partial.has_binary(),
    }
}
