//! C15 — predefined commands render to the documented MPD request for all parameters.
//! Table-driven: one row per constructor/builder path; the written line is tokenised with the MPD
//! tokenizer port and compared semantically with an expectation written from the protocol
//! reference (https://mpd.readthedocs.io/en/latest/protocol.html, command reference).

use std::{ops::Bound, time::Duration};

use mpd_client::{
    commands::{self as c, Command as TypedCommand, ReplayGainMode, SeekMode, SingleMode, Song, SongId, SongPosition},
    filter::Filter,
    tag::Tag,
};
use mpd_protocol::Command;
use proptest::prelude::*;
use serde::{Deserialize, Serialize};

use crate::{
    cmdlab::sent_bytes,
    core::{escape_bytes, pick_idx, CaseResult, ExhaustivePart, Property, RandomPart, Tier},
    mpdtok,
    props::c20::tag_table,
};

#[derive(Debug, Clone, Copy, Serialize, Deserialize, PartialEq, Eq)]
pub enum Bk {
    Inc,
    Exc,
    Unb,
}

#[derive(Debug, Clone, Serialize, Deserialize)]
pub struct Params {
    pub a: u64,
    pub b: u64,
    pub c: u64,
    pub s1: String,
    pub s2: String,
    pub s3: String,
    pub lo: Bk,
    pub hi: Bk,
    pub secs: u64,
    pub nanos: u32,
    pub flag: u8,
    pub tags: Vec<u16>,
}

#[derive(Debug, Clone, Serialize, Deserialize)]
pub struct Case {
    pub row: u16,
    pub p: Params,
}

#[derive(Debug, Clone, PartialEq)]
pub enum Want {
    /// exact token
    Tok(String),
    /// decimal number with this value
    Num(u128),
    /// START:END denoting this Rust range on the universe [0, usize::MAX)
    Range(Bound<u64>, Bound<u64>),
    /// +N / -N
    Rel(char, u64),
    /// [sign]seconds.fraction within 0.5 ms (+1 ulp of f64) of this many nanoseconds
    Time(Option<char>, u128),
}

fn t(s: &str) -> Want {
    Want::Tok(s.to_string())
}

const U: u128 = usize::MAX as u128;

fn norm(lo: u128, hi: u128) -> Option<(u128, u128)> {
    let lo = lo.min(U);
    let hi = hi.min(U);
    if lo >= hi {
        None
    } else {
        Some((lo, hi))
    }
}

fn rust_range_set(lo: Bound<u64>, hi: Bound<u64>) -> Option<(u128, u128)> {
    let l = match lo {
        Bound::Included(a) => a as u128,
        Bound::Excluded(a) => a as u128 + 1,
        Bound::Unbounded => 0,
    };
    let h = match hi {
        Bound::Included(b) => b as u128 + 1,
        Bound::Excluded(b) => b as u128,
        Bound::Unbounded => U,
    };
    norm(l, h)
}

fn dec(s: &[u8]) -> Option<u128> {
    if s.is_empty() || s.len() > 30 || !s.iter().all(u8::is_ascii_digit) {
        return None;
    }
    std::str::from_utf8(s).ok()?.parse().ok()
}

fn matches(tok: &[u8], want: &Want) -> Result<(), String> {
    let show = || escape_bytes(tok);
    match want {
        Want::Tok(s) => {
            if tok == s.as_bytes() {
                Ok(())
            } else {
                Err(format!("token {:?}, expected {:?}", show(), s))
            }
        }
        Want::Num(n) => match dec(tok) {
            Some(v) if v == *n => Ok(()),
            _ => Err(format!("token {:?}, expected the number {n}", show())),
        },
        Want::Range(lo, hi) => {
            let colon = tok.iter().position(|b| *b == b':').ok_or_else(|| format!("token {:?} is not START:END", show()))?;
            let start = dec(&tok[..colon]).ok_or_else(|| format!("bad range start in {:?}", show()))?;
            let end = if colon + 1 == tok.len() {
                U
            } else {
                dec(&tok[colon + 1..]).ok_or_else(|| format!("bad range end in {:?}", show()))?
            };
            let got = norm(start, end);
            let exp = rust_range_set(*lo, *hi);
            if got == exp {
                Ok(())
            } else {
                Err(format!("range token {:?} denotes positions {got:?}, the Rust range ({lo:?}, {hi:?}) denotes {exp:?}", show()))
            }
        }
        Want::Rel(sign, mag) => {
            if tok.first() == Some(&(*sign as u8)) && dec(&tok[1..]) == Some(*mag as u128) {
                Ok(())
            } else {
                Err(format!("token {:?}, expected {sign}{mag}", show()))
            }
        }
        Want::Time(sign, nanos) => {
            let mut rest = tok;
            match sign {
                Some(s) => {
                    if rest.first() != Some(&(*s as u8)) {
                        return Err(format!("token {:?}, expected sign {s}", show()));
                    }
                    rest = &rest[1..];
                }
                None => {
                    if matches!(rest.first(), Some(b'+') | Some(b'-')) {
                        return Err(format!("token {:?} carries an unexpected sign", show()));
                    }
                }
            }
            let (int, frac) = match rest.iter().position(|b| *b == b'.') {
                Some(i) => (&rest[..i], &rest[i + 1..]),
                None => (rest, &b""[..]),
            };
            let int = dec(int).ok_or_else(|| format!("bad time token {:?}", show()))?;
            if frac.len() > 9 || !frac.iter().all(u8::is_ascii_digit) {
                return Err(format!("bad time fraction in {:?}", show()));
            }
            let mut f: u128 = if frac.is_empty() { 0 } else { dec(frac).unwrap() };
            for _ in frac.len()..9 {
                f *= 10;
            }
            let got = int * 1_000_000_000 + f;
            let secs = (*nanos as f64) / 1e9;
            let ulp = f64::from_bits(secs.to_bits() + 1) - secs;
            let tol = 500_000u128 + (ulp * 1e9).ceil() as u128;
            if got.abs_diff(*nanos) <= tol {
                Ok(())
            } else {
                Err(format!("time token {:?} = {got} ns, expected {nanos} ns +- {tol}", show()))
            }
        }
    }
}

fn bound(k: Bk, v: u64) -> Bound<u64> {
    match k {
        Bk::Inc => Bound::Included(v),
        Bk::Exc => Bound::Excluded(v),
        Bk::Unb => Bound::Unbounded,
    }
}

fn pos_bounds(p: &Params) -> (Bound<SongPosition>, Bound<SongPosition>) {
    let f = |k, v: u64| match k {
        Bk::Inc => Bound::Included(SongPosition(v as usize)),
        Bk::Exc => Bound::Excluded(SongPosition(v as usize)),
        Bk::Unb => Bound::Unbounded,
    };
    (f(p.lo, p.a), f(p.hi, p.b))
}

fn usize_bounds(p: &Params) -> (Bound<usize>, Bound<usize>) {
    let f = |k, v: u64| match k {
        Bk::Inc => Bound::Included(v as usize),
        Bk::Exc => Bound::Excluded(v as usize),
        Bk::Unb => Bound::Unbounded,
    };
    (f(p.lo, p.a), f(p.hi, p.b))
}

fn want_range(p: &Params) -> Want {
    Want::Range(bound(p.lo, p.a), bound(p.hi, p.b))
}

fn tag_at(i: u16) -> (Tag, Want) {
    let table = tag_table();
    let (tag, name) = table[pick_idx(i, table.len())].clone();
    (tag, t(name))
}

fn simple_filter(p: &Params) -> (Filter, Want) {
    let (tag, name) = tag_at(p.tags.first().copied().unwrap_or(0));
    let Want::Tok(name) = name else { unreachable!() };
    (Filter::tag(tag, "x y"), Want::Tok(format!("({name} == \"x y\")")))
}

pub const ROWS: usize = 100;

/// Row `row` with parameters `p`: the command the crate builds and what the protocol reference
/// says the request must be. `None`: the row's documented precondition does not hold for `p`.
#[allow(clippy::too_many_lines)]
pub fn eval(row: usize, p: &Params) -> Option<(&'static str, Command, Vec<Want>)> {
    let d = Duration::new(p.secs, p.nanos % 1_000_000_000);
    let dn = d.as_nanos();
    let (s1, s2, s3) = (p.s1.as_str(), p.s2.as_str(), p.s3.as_str());
    let b = p.flag & 1 == 1;
    let bt = if b { t("1") } else { t("0") };
    let pos = SongPosition(p.a as usize);
    let id = SongId(p.a);
    let pos2 = SongPosition(p.b as usize);
    let n = |v: u64| Want::Num(v as u128);
    Some(match row {
        0 => ("ClearQueue", c::ClearQueue.command(), vec![t("clear")]),
        1 => ("Next", c::Next.command(), vec![t("next")]),
        2 => ("Ping", c::Ping.command(), vec![t("ping")]),
        3 => ("Previous", c::Previous.command(), vec![t("previous")]),
        4 => ("Stop", c::Stop.command(), vec![t("stop")]),
        5 => ("ClearPlaylist", c::ClearPlaylist(s1).command(), vec![t("playlistclear"), t(s1)]),
        6 => ("DeletePlaylist", c::DeletePlaylist(s1).command(), vec![t("rm"), t(s1)]),
        7 => ("SaveQueueAsPlaylist", c::SaveQueueAsPlaylist(s1).command(), vec![t("save"), t(s1)]),
        8 => ("SetConsume", c::SetConsume(b).command(), vec![t("consume"), bt]),
        9 => ("SetPause", c::SetPause(b).command(), vec![t("pause"), bt]),
        10 => ("SetRandom", c::SetRandom(b).command(), vec![t("random"), bt]),
        11 => ("SetRepeat", c::SetRepeat(b).command(), vec![t("repeat"), bt]),
        12 => ("SubscribeToChannel", c::SubscribeToChannel(s1).command(), vec![t("subscribe"), t(s1)]),
        13 => ("UnsubscribeFromChannel", c::UnsubscribeFromChannel(s1).command(), vec![t("unsubscribe"), t(s1)]),
        14 => ("ReplayGainStatus", c::ReplayGainStatus.command(), vec![t("replay_gain_status")]),
        15 => ("Status", c::Status.command(), vec![t("status")]),
        16 => ("Stats", c::Stats.command(), vec![t("stats")]),
        17 => ("Queue", c::Queue.command(), vec![t("playlistinfo")]),
        18 => ("Queue::all", c::Queue::all().command(), vec![t("playlistinfo")]),
        19 => ("Queue::song(id)", c::Queue::song(id).command(), vec![t("playlistid"), n(p.a)]),
        20 => ("Queue::song(pos)", c::Queue::song(pos).command(), vec![t("playlistinfo"), n(p.a as usize as u64)]),
        21 => ("Queue::range", c::Queue::range(pos_bounds(p)).command(), vec![t("playlistinfo"), want_range(p)]),
        22 => ("QueueRange::song(Song::Id)", c::QueueRange::song(Song::Id(id)).command(), vec![t("playlistid"), n(p.a)]),
        23 => ("QueueRange::song(Song::Position)", c::QueueRange::song(Song::Position(pos)).command(), vec![t("playlistinfo"), n(p.a)]),
        24 => ("QueueRange::range", c::QueueRange::range(pos_bounds(p)).command(), vec![t("playlistinfo"), want_range(p)]),
        25 => ("CurrentSong", c::CurrentSong.command(), vec![t("currentsong")]),
        26 => ("GetPlaylists", c::GetPlaylists.command(), vec![t("listplaylists")]),
        27 => ("GetEnabledTagTypes", c::GetEnabledTagTypes.command(), vec![t("tagtypes")]),
        28 => ("GetPlaylist", c::GetPlaylist(s1).command(), vec![t("listplaylistinfo"), t(s1)]),
        29 => {
            let v = (p.a % 256) as u8;
            ("SetVolume", c::SetVolume(v).command(), vec![t("setvol"), n(u64::from(v.min(100)))])
        }
        30 => {
            let (m, w) = [(SingleMode::Disabled, "0"), (SingleMode::Enabled, "1"), (SingleMode::Oneshot, "oneshot")][(p.flag % 3) as usize];
            ("SetSingle", c::SetSingle(m).command(), vec![t("single"), t(w)])
        }
        31 => {
            let (m, w) = [
                (ReplayGainMode::Off, "off"),
                (ReplayGainMode::Track, "track"),
                (ReplayGainMode::Album, "album"),
                (ReplayGainMode::Auto, "auto"),
            ][(p.flag % 4) as usize];
            ("SetReplayGainMode", c::SetReplayGainMode(m).command(), vec![t("replay_gain_mode"), t(w)])
        }
        32 => ("Crossfade", c::Crossfade(d).command(), vec![t("crossfade"), n(d.as_secs())]),
        33 => ("SeekTo(pos)", c::SeekTo(Song::Position(pos), d).command(), vec![t("seek"), n(p.a), Want::Time(None, dn)]),
        34 => ("SeekTo(id)", c::SeekTo(Song::Id(id), d).command(), vec![t("seekid"), n(p.a), Want::Time(None, dn)]),
        35 => ("Seek(Absolute)", c::Seek(SeekMode::Absolute(d)).command(), vec![t("seekcur"), Want::Time(None, dn)]),
        36 => ("Seek(Forward)", c::Seek(SeekMode::Forward(d)).command(), vec![t("seekcur"), Want::Time(Some('+'), dn)]),
        37 => ("Seek(Backward)", c::Seek(SeekMode::Backward(d)).command(), vec![t("seekcur"), Want::Time(Some('-'), dn)]),
        38 => ("Shuffle::all", c::Shuffle::all().command(), vec![t("shuffle")]),
        39 => ("Shuffle::range", c::Shuffle::range(pos_bounds(p)).command(), vec![t("shuffle"), want_range(p)]),
        40 => ("Play::current", c::Play::current().command(), vec![t("play")]),
        41 => ("Play::song(pos)", c::Play::song(pos).command(), vec![t("play"), n(p.a)]),
        42 => ("Play::song(id)", c::Play::song(id).command(), vec![t("playid"), n(p.a)]),
        43 => ("Add::uri", c::Add::uri(s1).command(), vec![t("addid"), t(s1)]),
        44 => ("Add::at", c::Add::uri(s1).at(p.a as usize).command(), vec![t("addid"), t(s1), n(p.a)]),
        45 => ("Add::before_current", c::Add::uri(s1).before_current(p.a as usize).command(), vec![t("addid"), t(s1), Want::Rel('-', p.a)]),
        46 => ("Add::after_current", c::Add::uri(s1).after_current(p.a as usize).command(), vec![t("addid"), t(s1), Want::Rel('+', p.a)]),
        47 => ("Delete::id", c::Delete::id(id).command(), vec![t("deleteid"), n(p.a)]),
        48 => (
            "Delete::position",
            c::Delete::position(pos).command(),
            vec![t("delete"), Want::Range(Bound::Included(p.a), Bound::Included(p.a))],
        ),
        49 => ("Delete::range", c::Delete::range(pos_bounds(p)).command(), vec![t("delete"), want_range(p)]),
        50 => ("Move::id.to_position", c::Move::id(id).to_position(pos2).command(), vec![t("moveid"), n(p.a), n(p.b)]),
        51 => ("Move::id.after_current", c::Move::id(id).after_current(p.b as usize).command(), vec![t("moveid"), n(p.a), Want::Rel('+', p.b)]),
        52 => ("Move::id.before_current", c::Move::id(id).before_current(p.b as usize).command(), vec![t("moveid"), n(p.a), Want::Rel('-', p.b)]),
        53 => (
            "Move::position.to_position",
            c::Move::position(pos).to_position(pos2).command(),
            vec![t("move"), Want::Range(Bound::Included(p.a), Bound::Included(p.a)), n(p.b)],
        ),
        54 => (
            "Move::position.after_current",
            c::Move::position(pos).after_current(p.b as usize).command(),
            vec![t("move"), Want::Range(Bound::Included(p.a), Bound::Included(p.a)), Want::Rel('+', p.b)],
        ),
        55 => (
            "Move::position.before_current",
            c::Move::position(pos).before_current(p.b as usize).command(),
            vec![t("move"), Want::Range(Bound::Included(p.a), Bound::Included(p.a)), Want::Rel('-', p.b)],
        ),
        56 => {
            if p.hi == Bk::Unb {
                return None; // documented: panics on an open end
            }
            ("Move::range.to_position", c::Move::range(pos_bounds(p)).to_position(SongPosition(p.c as usize)).command(), vec![t("move"), want_range(p), n(p.c)])
        }
        57 => {
            if p.hi == Bk::Unb {
                return None;
            }
            ("Move::range.after_current", c::Move::range(pos_bounds(p)).after_current(p.c as usize).command(), vec![t("move"), want_range(p), Want::Rel('+', p.c)])
        }
        58 => {
            let (f, fw) = simple_filter(p);
            ("Find::new", c::Find::new(f).command(), vec![t("find"), fw])
        }
        59 => {
            let (f, fw) = simple_filter(p);
            let (tag, tw) = tag_at(p.tags.get(1).copied().unwrap_or(7));
            ("Find::sort", c::Find::new(f).sort(tag).command(), vec![t("find"), fw, t("sort"), tw])
        }
        60 => {
            let (f, fw) = simple_filter(p);
            ("Find::window", c::Find::new(f).window(usize_bounds(p)).command(), vec![t("find"), fw, t("window"), want_range(p)])
        }
        61 => {
            let (f, fw) = simple_filter(p);
            let (tag, tw) = tag_at(p.tags.get(1).copied().unwrap_or(7));
            // builder order must not matter
            let cmd = if b { c::Find::new(f).window(usize_bounds(p)).sort(tag) } else { c::Find::new(f).sort(tag).window(usize_bounds(p)) };
            ("Find::sort+window", cmd.command(), vec![t("find"), fw, t("sort"), tw, t("window"), want_range(p)])
        }
        62 => {
            let (tag, tw) = tag_at(p.tags.first().copied().unwrap_or(0));
            ("List::new", c::List::new(tag).command(), vec![t("list"), tw])
        }
        63 => {
            let (tag, tw) = tag_at(p.tags.get(2).copied().unwrap_or(3));
            let (f, fw) = simple_filter(p);
            ("List::filter", c::List::new(tag).filter(f).command(), vec![t("list"), tw, fw])
        }
        64 => {
            let (tag, tw) = tag_at(p.tags.get(2).copied().unwrap_or(3));
            let (g1, g1w) = tag_at(p.tags.get(3).copied().unwrap_or(9000));
            ("List::group_by[1]", c::List::new(tag).group_by([g1]).command(), vec![t("list"), tw, t("group"), g1w])
        }
        65 => {
            let (tag, tw) = tag_at(p.tags.get(2).copied().unwrap_or(3));
            let (g1, g1w) = tag_at(p.tags.get(3).copied().unwrap_or(9000));
            let (g2, g2w) = tag_at(p.tags.get(4).copied().unwrap_or(20000));
            let (f, fw) = simple_filter(p);
            let cmd = if b { c::List::new(tag).filter(f).group_by([g1, g2]) } else { c::List::new(tag).group_by([g1, g2]).filter(f) };
            ("List::filter+group_by[2]", cmd.command(), vec![t("list"), tw, fw, t("group"), g1w, t("group"), g2w])
        }
        66 => {
            let (f, fw) = simple_filter(p);
            ("Count::new", c::Count::new(f).command(), vec![t("count"), fw])
        }
        67 => {
            let (f, fw) = simple_filter(p);
            let (g, gw) = tag_at(p.tags.get(1).copied().unwrap_or(7));
            ("Count::group_by", c::Count::new(f).group_by(g).command(), vec![t("count"), fw, t("group"), gw])
        }
        68 => {
            let (g, gw) = tag_at(p.tags.get(1).copied().unwrap_or(7));
            ("CountGrouped::new", c::CountGrouped::new(g).command(), vec![t("count"), t("group"), gw])
        }
        69 => {
            let (f, fw) = simple_filter(p);
            let (g, gw) = tag_at(p.tags.get(1).copied().unwrap_or(7));
            ("CountGrouped::filter", c::CountGrouped::new(g).filter(f).command(), vec![t("count"), fw, t("group"), gw])
        }
        70 => ("RenamePlaylist", c::RenamePlaylist::new(s1, s2).command(), vec![t("rename"), t(s1), t(s2)]),
        71 => ("LoadPlaylist::name", c::LoadPlaylist::name(s1).command(), vec![t("load"), t(s1)]),
        72 => ("LoadPlaylist::range", c::LoadPlaylist::name(s1).range(usize_bounds(p)).command(), vec![t("load"), t(s1), want_range(p)]),
        73 => ("AddToPlaylist::new", c::AddToPlaylist::new(s1, s2).command(), vec![t("playlistadd"), t(s1), t(s2)]),
        74 => ("AddToPlaylist::at", c::AddToPlaylist::new(s1, s2).at(p.a as usize).command(), vec![t("playlistadd"), t(s1), t(s2), n(p.a)]),
        75 => ("RemoveFromPlaylist::position", c::RemoveFromPlaylist::position(s1, p.a as usize).command(), vec![t("playlistdelete"), t(s1), n(p.a)]),
        76 => ("RemoveFromPlaylist::range", c::RemoveFromPlaylist::range(s1, pos_bounds(p)).command(), vec![t("playlistdelete"), t(s1), want_range(p)]),
        77 => ("MoveInPlaylist", c::MoveInPlaylist::new(s1, p.a as usize, p.b as usize).command(), vec![t("playlistmove"), t(s1), n(p.a), n(p.b)]),
        78 => ("ListAllIn::root", c::ListAllIn::root().command(), vec![t("listallinfo")]),
        79 => {
            let mut w = vec![t("listallinfo")];
            if !s1.is_empty() {
                w.push(t(s1));
            }
            ("ListAllIn::directory", c::ListAllIn::directory(s1).command(), w)
        }
        80 => ("SetBinaryLimit", c::SetBinaryLimit(p.a as usize).command(), vec![t("binarylimit"), n(p.a)]),
        81 => ("AlbumArt::new", c::AlbumArt::new(s1).command(), vec![t("albumart"), t(s1), n(0)]),
        82 => ("AlbumArt::offset", c::AlbumArt::new(s1).offset(p.a as usize).command(), vec![t("albumart"), t(s1), n(p.a)]),
        83 => ("AlbumArtEmbedded::new", c::AlbumArtEmbedded::new(s1).command(), vec![t("readpicture"), t(s1), n(0)]),
        84 => ("AlbumArtEmbedded::offset", c::AlbumArtEmbedded::new(s1).offset(p.a as usize).command(), vec![t("readpicture"), t(s1), n(p.a)]),
        85 => match p.flag % 4 {
            0 => ("TagTypes::enable_all", c::TagTypes::enable_all().command(), vec![t("tagtypes"), t("all")]),
            1 => ("TagTypes::disable_all", c::TagTypes::disable_all().command(), vec![t("tagtypes"), t("clear")]),
            k => {
                if p.tags.is_empty() || p.tags.len() > 40 {
                    return None; // documented: panics on an empty list
                }
                let (tags, mut wants): (Vec<Tag>, Vec<Want>) = p.tags.iter().map(|i| tag_at(*i)).unzip();
                let word = if k == 2 { "disable" } else { "enable" };
                let mut w = vec![t("tagtypes"), t(word)];
                w.append(&mut wants);
                let cmd = if k == 2 { c::TagTypes::disable(&tags).command() } else { c::TagTypes::enable(&tags).command() };
                (if k == 2 { "TagTypes::disable" } else { "TagTypes::enable" }, cmd, w)
            }
        },
        86 => match p.flag % 4 {
            0 => ("StickerGet", c::StickerGet::new(s1, s2).command(), vec![t("sticker"), t("get"), t("song"), t(s1), t(s2)]),
            1 => ("StickerSet", c::StickerSet::new(s1, s2, s3).command(), vec![t("sticker"), t("set"), t("song"), t(s1), t(s2), t(s3)]),
            2 => ("StickerDelete", c::StickerDelete::new(s1, s2).command(), vec![t("sticker"), t("delete"), t("song"), t(s1), t(s2)]),
            _ => ("StickerList", c::StickerList::new(s1).command(), vec![t("sticker"), t("list"), t("song"), t(s1)]),
        },
        87 => {
            let base = vec![t("sticker"), t("find"), t("song"), t(s1), t(s2)];
            let f = c::StickerFind::new(s1, s2);
            match p.flag % 4 {
                0 => ("StickerFind::new", f.command(), base),
                1 => ("StickerFind::where_eq", f.where_eq(s3).command(), [base, vec![t("="), t(s3)]].concat()),
                2 => ("StickerFind::where_gt", f.where_gt(s3).command(), [base, vec![t(">"), t(s3)]].concat()),
                _ => ("StickerFind::where_lt", f.where_lt(s3).command(), [base, vec![t("<"), t(s3)]].concat()),
            }
        }
        88 => match p.flag % 3 {
            0 => ("Update::new", c::Update::new().command(), vec![t("update")]),
            1 => ("Update::default", c::Update::default().command(), vec![t("update")]),
            _ => ("Update::uri", c::Update::new().uri(s1).command(), vec![t("update"), t(s1)]),
        },
        89 => match p.flag % 3 {
            0 => ("Rescan::new", c::Rescan::new().command(), vec![t("rescan")]),
            1 => ("Rescan::default", c::Rescan::default().command(), vec![t("rescan")]),
            _ => ("Rescan::uri", c::Rescan::new().uri(s1).command(), vec![t("rescan"), t(s1)]),
        },
        90 => match p.flag % 2 {
            0 => ("ReadChannelMessages", c::ReadChannelMessages.command(), vec![t("readmessages")]),
            _ => ("ListChannels", c::ListChannels.command(), vec![t("channels")]),
        },
        91 => ("SendChannelMessage", c::SendChannelMessage::new(s1, s2).command(), vec![t("sendmessage"), t(s1), t(s2)]),
        // builder methods documented as "will overwrite ... if called multiple times"
        92 => {
            let (tag, tw) = tag_at(p.tags.get(2).copied().unwrap_or(3));
            let other = Filter::tag(Tag::Genre, "first");
            let (f, fw) = simple_filter(p);
            ("List::filter twice", c::List::new(tag).filter(other).filter(f).command(), vec![t("list"), tw, fw])
        }
        93 => {
            let (tag, tw) = tag_at(p.tags.get(2).copied().unwrap_or(3));
            let (g0, _) = tag_at(p.tags.get(1).copied().unwrap_or(5000));
            let (g1, g1w) = tag_at(p.tags.get(3).copied().unwrap_or(9000));
            ("List::group_by twice", c::List::new(tag).group_by([g0.clone(), g0]).group_by([g1]).command(), vec![t("list"), tw, t("group"), g1w])
        }
        94 => {
            let other = Filter::tag(Tag::Genre, "first");
            let (f, fw) = simple_filter(p);
            let (g, gw) = tag_at(p.tags.get(1).copied().unwrap_or(7));
            ("CountGrouped::filter twice", c::CountGrouped::new(g).filter(other).filter(f).command(), vec![t("count"), fw, t("group"), gw])
        }
        95 => {
            let other = Filter::tag(Tag::Genre, "first");
            let (tag, tw) = tag_at(p.tags.get(2).copied().unwrap_or(3));
            let (g1, g1w) = tag_at(p.tags.get(3).copied().unwrap_or(9000));
            let (f, fw) = simple_filter(p);
            ("List::filter, group_by, filter", c::List::new(tag).filter(other).group_by([g1]).filter(f).command(), vec![t("list"), tw, fw, t("group"), g1w])
        }
        // builder objects that are rendered (and cloned, formatted, compared) between two construction
        // steps: a command object is a value - what it was used for before must not show in what a
        // later `command()` of it, or of a clone of it, sends
        96 => {
            let (f, fw) = simple_filter(p);
            let (tag, tw) = tag_at(p.tags.get(1).copied().unwrap_or(7));
            let use_it = |x: &c::Find| {
                let _ = (x.command(), format!("{x:?}"), x.clone() == *x);
            };
            match p.flag % 6 {
                0 => {
                    let base = c::Find::new(f);
                    use_it(&base);
                    ("Find rendered, clone.window", base.clone().window(usize_bounds(p)).command(), vec![t("find"), fw, t("window"), want_range(p)])
                }
                1 => {
                    let base = c::Find::new(f).sort(tag);
                    use_it(&base);
                    ("Find::sort rendered, window", base.window(usize_bounds(p)).command(), vec![t("find"), fw, t("sort"), tw, t("window"), want_range(p)])
                }
                2 => {
                    let base = c::Find::new(f).window(1..2);
                    use_it(&base);
                    ("Find::window rendered, clone.window", base.clone().window(usize_bounds(p)).command(), vec![t("find"), fw, t("window"), want_range(p)])
                }
                3 => {
                    let base = c::Find::new(f).window(usize_bounds(p));
                    use_it(&base);
                    ("Find::window rendered, sort", base.sort(tag).command(), vec![t("find"), fw, t("sort"), tw, t("window"), want_range(p)])
                }
                4 => {
                    let base = c::Find::new(f);
                    use_it(&base);
                    let c2 = base.clone().sort(tag);
                    use_it(&c2);
                    ("Find rendered, clone.sort rendered, window", c2.window(usize_bounds(p)).command(), vec![t("find"), fw, t("sort"), tw, t("window"), want_range(p)])
                }
                _ => {
                    let base = c::Find::new(f);
                    use_it(&base);
                    ("Find rendered, window", base.window(usize_bounds(p)).command(), vec![t("find"), fw, t("window"), want_range(p)])
                }
            }
        }
        97 => {
            let (f, fw) = simple_filter(p);
            let (tag, tw) = tag_at(p.tags.get(2).copied().unwrap_or(3));
            let (g, gw) = tag_at(p.tags.get(1).copied().unwrap_or(7));
            match p.flag % 4 {
                0 => {
                    let base = c::List::new(tag);
                    let _ = (base.command(), format!("{base:?}"));
                    let with = base.clone().filter(f);
                    let _ = with.command();
                    ("List rendered, filter rendered, group_by", with.group_by([g]).command(), vec![t("list"), tw, fw, t("group"), gw])
                }
                1 => {
                    let base = c::List::new(tag).group_by([g]);
                    let _ = base.command();
                    ("List::group_by rendered, filter", base.filter(f).command(), vec![t("list"), tw, fw, t("group"), gw])
                }
                2 => {
                    let base = c::Count::new(f);
                    let _ = (base.command(), base.clone());
                    ("Count rendered, group_by", base.group_by(g).command(), vec![t("count"), fw, t("group"), gw])
                }
                _ => {
                    let base = c::CountGrouped::new(g);
                    let _ = (base.command(), format!("{base:?}"));
                    ("CountGrouped rendered, filter", base.clone().filter(f).command(), vec![t("count"), fw, t("group"), gw])
                }
            }
        }
        98 => match p.flag % 5 {
            0 => {
                let base = c::Add::uri(s1);
                let _ = (base.command(), base.clone());
                ("Add rendered, at", base.at(p.a as usize).command(), vec![t("addid"), t(s1), n(p.a)])
            }
            1 => {
                let base = c::Add::uri(s1).at(7usize);
                let _ = base.command();
                ("Add::at rendered, after_current", base.clone().after_current(p.a as usize).command(), vec![t("addid"), t(s1), Want::Rel('+', p.a)])
            }
            2 => {
                let base = c::AlbumArt::new(s1);
                let _ = base.command();
                ("AlbumArt rendered, offset", base.clone().offset(p.a as usize).command(), vec![t("albumart"), t(s1), n(p.a)])
            }
            3 => {
                let base = c::StickerFind::new(s1, s2);
                let _ = (base.command(), format!("{base:?}"));
                ("StickerFind rendered, where_gt", base.where_gt(s3).command(), vec![t("sticker"), t("find"), t("song"), t(s1), t(s2), t(">"), t(s3)])
            }
            _ => {
                let base = c::Update::new();
                let _ = base.command();
                ("Update rendered, uri", base.clone().uri(s1).command(), vec![t("update"), t(s1)])
            }
        },
        // tag lists that happen to name every tag the crate knows (or all but one, or one twice): still
        // `tagtypes enable|disable` followed by exactly these names
        99 => {
            let table = tag_table();
            let rot = p.a as usize % table.len();
            let mut tags: Vec<Tag> = Vec::new();
            let mut wants: Vec<Want> = Vec::new();
            for k in 0..table.len() {
                let (tag, name) = table[(k + rot) % table.len()].clone();
                // now and then the catch-all carrying the canonical name instead of the named variant
                tags.push(if p.flag & 2 != 0 && k == (p.b as usize % table.len()) { Tag::Other(name.into()) } else { tag });
                wants.push(t(name));
            }
            match (u64::from(p.flag >> 2).wrapping_add(p.c)) % 4 {
                0 => {}
                1 => {
                    tags.pop();
                    wants.pop();
                }
                2 => {
                    tags.push(tags[0].clone());
                    wants.push(wants[0].clone());
                }
                _ => {
                    tags.reverse();
                    wants.reverse();
                }
            }
            let disable = p.flag & 1 == 1;
            let mut w = vec![t("tagtypes"), t(if disable { "disable" } else { "enable" })];
            w.append(&mut wants);
            let cmd = if disable { c::TagTypes::disable(&tags).command() } else { c::TagTypes::enable(&tags).command() };
            ("TagTypes with every known tag", cmd, w)
        }
        _ => return None,
    })
}

const GRID: [u64; 7] = [0, 1, 2, 99, 100, u64::MAX - 1, u64::MAX];

fn fc_class(s: &str) -> bool {
    s.bytes().any(|b| b == b'"' || b == b'\'' || b == b'\\')
}

pub fn check(case: &Case) -> CaseResult {
    let mut r = CaseResult::new();
    let row = case.row as usize % ROWS;
    let p = &case.p;
    if [&p.s1, &p.s2, &p.s3].iter().any(|s| fc_class(s) || s.contains('\n') || s.contains('\0')) {
        // quotes/backslashes are owned by C06 (open finding F-C); LF/NUL make the builders panic
        // as documented (`Command::argument`)
        r.class("excluded_string_class");
        return r;
    }
    let res = crate::core::catch(|| eval(row, p));
    let (name, cmd, wants) = match res {
        Err(panic) => {
            r.fail(format!("row {row}: building the command panicked: {panic}"));
            return r;
        }
        Ok(None) => {
            r.class("precondition_not_met");
            return r;
        }
        Ok(Some(x)) => x,
    };
    r.class(name);
    let boundary = [p.a, p.b, p.c].iter().any(|v| *v >= u64::MAX - 1 || *v == 0)
        || p.lo != Bk::Inc
        || p.hi != Bk::Exc
        || p.nanos % 1_000_000 != 0
        || p.secs > (1 << 53)
        || [&p.s1, &p.s2, &p.s3].iter().any(|s| s.is_empty() || s.bytes().any(|b| b <= 0x20 || b >= 0x80));
    if boundary {
        r.nontrivial();
    }
    let bytes = sent_bytes(cmd);
    let line = &bytes[..bytes.len() - 1];
    // a reference request of more than 15 arguments (a long tag list) is beyond MPD's compile-time
    // argument limit whatever the crate does: only the grammar is applied to it
    let tokenized = if wants.len() > mpdtok::COMMAND_ARGV_MAX { mpdtok::tokenize_any_count(line) } else { mpdtok::tokenize(line) };
    r.class_if(wants.len() > mpdtok::COMMAND_ARGV_MAX, "more_arguments_than_mpd_takes");
    let toks = match tokenized {
        Ok(t) => t,
        Err(e) => {
            r.fail(format!("{name}: MPD's tokenizer rejects {:?}: {e:?}", escape_bytes(line)));
            return r;
        }
    };
    if toks.len() != wants.len() {
        r.fail(format!("{name}: {} tokens in {:?}, the reference request has {} ({wants:?})", toks.len(), escape_bytes(line), wants.len()));
        return r;
    }
    for (i, (tok, want)) in toks.iter().zip(&wants).enumerate() {
        if let Err(e) = matches(tok, want) {
            r.fail(format!("{name}: argument {i} of {:?}: {e}", escape_bytes(line)));
            return r;
        }
    }
    r
}

fn number() -> impl Strategy<Value = u64> {
    prop_oneof![
        3 => (0..GRID.len()).prop_map(|i| GRID[i]),
        2 => 0..300u64,
        1 => any::<u64>(),
        1 => any::<u32>().prop_map(u64::from),
    ]
}

/// Strings that a well-meaning normaliser might treat as "nothing", "root", "default" or a number.
pub const ODD_STRINGS: [&str; 40] = [
    "/", "//", "///", ".", "..", "./", "/.", "../", "a/", "/a", "a//b", " ", "  ", "\t", " a", "a ", "-", "--", "-1", "+0", "0", "00", "1", "~", "*", "?", "#",
    "%", "%20", ":", "::", "=", "==", "null", "none", "all", "any", "file:///", "\u{3a9}", "\u{feff}",
];

fn plain_string() -> impl Strategy<Value = String> {
    prop_oneof![
        2 => (0..ODD_STRINGS.len()).prop_map(|i| ODD_STRINGS[i].to_string()),
        1 => Just(String::new()),
        4 => "[a-zA-Z0-9/._-]{1,16}",
        3 => "[a-z ]{1,12}",
        2 => "[a-z\u{e4}\u{4e2d}\u{1f3b5} \t]{1,10}",
        1 => Just("x y".to_string()),
        1 => Just("=".to_string()),
    ]
}

fn bk() -> impl Strategy<Value = Bk> {
    prop_oneof![Just(Bk::Inc), Just(Bk::Exc), Just(Bk::Unb)]
}

fn params() -> impl Strategy<Value = Params> {
    (
        (number(), number(), number()),
        (plain_string(), plain_string(), plain_string()),
        (bk(), bk()),
        (
            prop_oneof![3 => 0..5000u64, 1 => (0..GRID.len()).prop_map(|i| GRID[i]), 1 => any::<u64>()],
            prop_oneof![
                2 => Just(0u32),
                2 => (0..1000u32).prop_map(|ms| ms * 1_000_000),
                2 => prop_oneof![Just(499_999u32), Just(500_000), Just(500_001), Just(999_499_999), Just(999_500_000), Just(999_999_999), Just(1), Just(1_500_000)],
                2 => 0..1_000_000_000u32,
            ],
        ),
        any::<u8>(),
        prop::collection::vec(any::<u16>(), 0..6usize),
    )
        .prop_map(|((a, b, c), (s1, s2, s3), (lo, hi), (secs, nanos), flag, tags)| Params {
            a,
            b,
            c,
            s1,
            s2,
            s3,
            lo,
            hi,
            secs,
            nanos,
            flag,
            tags,
        })
}

fn grid(_tier: Tier) -> Box<dyn Iterator<Item = Case>> {
    let bks = [Bk::Inc, Bk::Exc, Bk::Unb];
    let nanos = [0u32, 1, 499_999, 500_000, 500_001, 999_499_999, 999_500_000, 999_999_999];
    Box::new((0..ROWS as u16).flat_map(move |row| {
        GRID.into_iter().flat_map(move |a| {
            GRID.into_iter().flat_map(move |b| {
                bks.into_iter().flat_map(move |lo| {
                    bks.into_iter().flat_map(move |hi| {
                        (0..8u8).map(move |flag8| {
                            let flag = flag8 % 4;
                            let k = (a as usize).wrapping_add(b as usize).wrapping_add(flag as usize) % nanos.len();
                            Case {
                                row,
                                p: Params {
                                    a,
                                    b,
                                    c: a ^ 1,
                                    s1: ["", "a b", "x", "\u{e4}\t"][flag as usize].to_string(),
                                    s2: "two words".into(),
                                    s3: "=3".into(),
                                    lo,
                                    hi,
                                    secs: [0, 2, u64::MAX, 1 << 53][flag as usize],
                                    nanos: nanos[k],
                                    flag: flag8,
                                    tags: vec![row.wrapping_mul(977), 3, 20000],
                                },
                            }
                        })
                    })
                })
            })
        })
    }))
}

/// every row x every odd string in the first string slot (the other parameters fixed)
fn string_grid(_tier: Tier) -> Box<dyn Iterator<Item = Case>> {
    Box::new((0..ROWS as u16).flat_map(move |row| {
        ODD_STRINGS.iter().enumerate().map(move |(i, s)| Case {
            row,
            p: Params {
                a: 1,
                b: 3,
                c: 2,
                s1: s.to_string(),
                s2: ODD_STRINGS[(i + 7) % ODD_STRINGS.len()].to_string(),
                s3: "plain".into(),
                lo: Bk::Inc,
                hi: Bk::Exc,
                secs: 2,
                nanos: 0,
                flag: (i % 4) as u8,
                tags: vec![row.wrapping_mul(977), 3],
            },
        })
    }))
}

pub fn property(_tier: Tier) -> Property {
    Property {
        id: "C15",
        level: "exploration",
        parts: vec![
            Box::new(ExhaustivePart {
                name: "grid",
                rule: "96 rows (one per constructor/builder path of every predefined command, incl. the builder methods documented to overwrite on a second call) x a,b in {0,1,2,99,100,MAX-1,MAX} x start/end bound kind in {included, excluded, unbounded} x 4 flag values selecting enum variants / strings (empty, blank, plain, multi-byte+tab) / duration magnitudes with sub-millisecond nanos; non-trivial = any boundary number, non-default bound kind, sub-ms duration, or empty/blank/non-ASCII string",
                space: Box::new(grid),
                check: Box::new(check),
            }),
            Box::new(ExhaustivePart {
                name: "odd_strings",
                rule: "every row x 40 strings a normaliser might treat as nothing/root/default/number (\"/\", \"//\", \".\", \"..\", blanks, \"-\", \"+0\", \"0\", \"*\", \"%20\", \"null\", \"any\", a BOM, ...) in the first string parameter (the second one cycles through the same list): the documented arguments must arrive verbatim; non-trivial = every case",
                space: Box::new(string_grid),
                check: Box::new(check),
            }),
            Box::new(RandomPart {
                name: "random",
                rule: "proptest: row uniformly, parameters from the grid values mixed with random numbers, durations around the .4995/.5/.9995 rounding edges, plain/blank/multi-byte strings (strings with quotes or backslashes are excluded and counted as excluded_string_class: C06 owns them); same non-trivial rule; distinct by serialised case",
                cases: (20_000, 30_000_000),
                strategy: Box::new(|_t| (0..ROWS as u16, params()).prop_map(|(row, p)| Case { row, p }).boxed()),
                check: Box::new(check),
            }),
        ],
        assumptions: vec![
            "the expectation rows follow the MPD protocol reference (command names, argument order, START:END ranges with exclusive END, +N/-N relative positions, fractional seconds)",
            "ranges are compared as sets of positions on [0, usize::MAX)",
        ],
        selftest: Some(mpdtok::selftest),
    }
}
