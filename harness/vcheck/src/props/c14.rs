//! C14 — song listings decode to the songs the server listed.
//! Round trip: abstract listing -> lines as MPD prints them -> real parser -> typed decoders.

use std::{collections::BTreeMap, time::Duration};

use mpd_client::{
    commands::{self as c, Command as TypedCommand},
    filter::Filter,
    responses::{Song, SongInQueue},
    tag::Tag,
};
use proptest::prelude::*;
use serde::{Deserialize, Serialize};

use crate::{
    core::{CaseResult, Property, RandomPart, Tier},
    props::c20::{tag_name, tag_table},
    streamlab::{on_used_connection, parse_all, with_history, OnUsedConnection},
};

#[derive(Debug, Clone, Serialize, Deserialize, PartialEq)]
pub enum Line {
    DurationMs(u64),
    /// milliseconds printed with another number of fractional digits: 1 = trailing zeros trimmed
    /// ("1.5", "7"), 2 = padded ("1.5000"), other = MPD's three digits
    DurationStyled(u64, u8),
    TimeSecs(u64),
    RangeMs(u64, Option<u64>),
    Pos(u64),
    Id(u64),
    Prio(u8),
    Format(String),
    LastModified(String),
    Tag(String, String),
}

#[derive(Debug, Clone, Serialize, Deserialize)]
pub enum Entry {
    Song { url: String, lines: Vec<Line> },
    Directory { name: String, modified: Option<String> },
    Playlist { name: String, modified: Option<String> },
}

#[derive(Debug, Clone, Copy, Serialize, Deserialize, PartialEq, Eq)]
pub enum Decoder {
    Queue,
    QueueRange,
    QueueSongId,
    CurrentSong,
    Find,
    GetPlaylist,
    ListAllIn,
}

#[derive(Debug, Clone, Serialize, Deserialize)]
pub struct Case {
    pub entries: Vec<Entry>,
    pub decoder: Decoder,
}

fn ms(v: u64) -> String {
    format!("{}.{:03}", v / 1000, v % 1000)
}

pub fn ms_styled(v: u64, style: u8) -> String {
    let base = ms(v);
    match style % 3 {
        1 => {
            let t = base.trim_end_matches('0');
            t.trim_end_matches('.').to_string()
        }
        2 => format!("{base}00"),
        _ => base,
    }
}

/// Name under which a tag line must be found: known names in any letter case belong to the named
/// variant (C20), whose protocol name is the canonical spelling.
pub fn folded(name: &str) -> String {
    tag_table().iter().find(|(_, n)| n.eq_ignore_ascii_case(name)).map_or_else(|| name.to_string(), |(_, n)| n.to_string())
}

pub fn encode(entries: &[Entry]) -> Vec<u8> {
    let mut out = String::new();
    for e in entries {
        match e {
            Entry::Song { url, lines } => {
                out.push_str(&format!("file: {url}\n"));
                for l in lines {
                    match l {
                        Line::DurationMs(v) => out.push_str(&format!("duration: {}\n", ms(*v))),
                        Line::DurationStyled(v, st) => out.push_str(&format!("duration: {}\n", ms_styled(*v, *st))),
                        Line::TimeSecs(v) => out.push_str(&format!("Time: {v}\n")),
                        Line::RangeMs(a, b) => out.push_str(&format!("Range: {}-{}\n", ms(*a), b.map(ms).unwrap_or_default())),
                        Line::Pos(v) => out.push_str(&format!("Pos: {v}\n")),
                        Line::Id(v) => out.push_str(&format!("Id: {v}\n")),
                        Line::Prio(v) => out.push_str(&format!("Prio: {v}\n")),
                        Line::Format(v) => out.push_str(&format!("Format: {v}\n")),
                        Line::LastModified(v) => out.push_str(&format!("Last-Modified: {v}\n")),
                        Line::Tag(k, v) => out.push_str(&format!("{k}: {v}\n")),
                    }
                }
            }
            Entry::Directory { name, modified } => {
                out.push_str(&format!("directory: {name}\n"));
                if let Some(m) = modified {
                    out.push_str(&format!("Last-Modified: {m}\n"));
                }
            }
            Entry::Playlist { name, modified } => {
                out.push_str(&format!("playlist: {name}\n"));
                if let Some(m) = modified {
                    out.push_str(&format!("Last-Modified: {m}\n"));
                }
            }
        }
    }
    out.push_str("OK\n");
    out.into_bytes()
}

#[derive(Debug, PartialEq)]
struct ExpSong {
    url: String,
    duration_ms: Option<u64>,
    range: Option<(u64, Option<u64>)>,
    pos: u64,
    id: u64,
    prio: u8,
    format: Option<String>,
    modified: Option<String>,
    tags: BTreeMap<String, Vec<String>>,
}

fn expected(entries: &[Entry]) -> Vec<ExpSong> {
    entries
        .iter()
        .filter_map(|e| match e {
            Entry::Song { url, lines } => {
                let mut s = ExpSong {
                    url: url.clone(),
                    duration_ms: None,
                    range: None,
                    pos: 0,
                    id: 0,
                    prio: 0,
                    format: None,
                    modified: None,
                    tags: BTreeMap::new(),
                };
                let mut time = None;
                for l in lines {
                    match l {
                        Line::DurationMs(v) | Line::DurationStyled(v, _) => s.duration_ms = Some(*v),
                        Line::TimeSecs(v) => time = Some(*v * 1000),
                        Line::RangeMs(a, b) => s.range = Some((*a, *b)),
                        Line::Pos(v) => s.pos = *v,
                        Line::Id(v) => s.id = *v,
                        Line::Prio(v) => s.prio = *v,
                        Line::Format(v) => s.format = Some(v.clone()),
                        Line::LastModified(v) => s.modified = Some(v.clone()),
                        Line::Tag(k, v) => s.tags.entry(folded(k)).or_default().push(v.clone()),
                    }
                }
                if s.duration_ms.is_none() {
                    s.duration_ms = time;
                }
                Some(s)
            }
            _ => None,
        })
        .collect()
}

fn close(d: Duration, want_ms: u64) -> bool {
    let want = Duration::from_millis(want_ms);
    let diff = if d > want { d - want } else { want - d };
    diff < Duration::from_micros(1)
}

fn compare_song(i: usize, got: &Song, want: &ExpSong) -> Result<(), String> {
    if got.url != want.url {
        return Err(format!("song {i}: url {:?}, listed {:?}", got.url, want.url));
    }
    match (got.duration, want.duration_ms) {
        (None, None) => {}
        (Some(d), Some(w)) if close(d, w) => {}
        (g, w) => return Err(format!("song {i} ({}): duration {g:?}, listed {w:?} ms", want.url)),
    }
    if got.format != want.format {
        return Err(format!("song {i}: format {:?}, listed {:?}", got.format, want.format));
    }
    if got.last_modified.as_ref().map(|t| t.raw().to_string()) != want.modified {
        return Err(format!(
            "song {i} ({}): last-modified {:?}, listed {:?}",
            want.url,
            got.last_modified.as_ref().map(|t| t.raw()),
            want.modified
        ));
    }
    if let (Some(ts), Some(raw)) = (&got.last_modified, &want.modified) {
        chrono_agrees(ts, raw).map_err(|e| format!("song {i} ({}): {e}", want.url))?;
    }
    let mut tags: BTreeMap<String, Vec<String>> = BTreeMap::new();
    for (t, v) in &got.tags {
        if tags.insert(tag_name(t), v.clone()).is_some() {
            return Err(format!("song {i}: two map entries for tag {}", tag_name(t)));
        }
    }
    if tags != want.tags {
        return Err(format!("song {i} ({}): tags {tags:?}, listed {:?}", want.url, want.tags));
    }
    // convenience accessors agree with the map
    let first = |n: &str| want.tags.get(n).and_then(|v| v.first()).map(String::as_str);
    if got.title() != first("Title") || got.album() != first("Album") {
        return Err(format!("song {i}: title()/album() disagree with the listed tags"));
    }
    if got.artists() != want.tags.get("Artist").map(Vec::as_slice).unwrap_or(&[])
        || got.album_artists() != want.tags.get("AlbumArtist").map(Vec::as_slice).unwrap_or(&[])
    {
        return Err(format!("song {i}: artists()/album_artists() disagree with the listed tags"));
    }
    if got.file_path().to_str() != Some(want.url.as_str()) {
        return Err(format!("song {i}: file_path() disagrees with the url"));
    }
    Ok(())
}

fn compare_queue(i: usize, got: &SongInQueue, want: &ExpSong) -> Result<(), String> {
    compare_song(i, &got.song, want)?;
    if got.position.0 as u64 != want.pos || got.id.0 != want.id || got.priority != want.prio {
        return Err(format!(
            "song {i} ({}): pos/id/prio {}/{}/{}, listed {}/{}/{}",
            want.url, got.position.0, got.id.0, got.priority, want.pos, want.id, want.prio
        ));
    }
    match (got.range, want.range) {
        (None, None) => {}
        (Some(r), Some((a, b))) => {
            let to_ok = match (r.to, b) {
                (None, None) => true,
                (Some(t), Some(b)) => close(t, b),
                _ => false,
            };
            if !close(r.from, a) || !to_ok {
                return Err(format!("song {i} ({}): range {r:?}, listed {a}-{b:?} ms", want.url));
            }
        }
        (g, w) => return Err(format!("song {i} ({}): range {g:?}, listed {w:?}", want.url)),
    }
    Ok(())
}

pub fn check(case: &Case) -> CaseResult {
    check_variant(case, 0)
}

pub fn check_used(u: &OnUsedConnection<Case>) -> CaseResult {
    if u.after_failed_conversions() {
        crate::streamlab::fail_some_typed_conversions_first();
    }
    let mut r = with_history(&u.history, || check_variant(&u.case, u.variant));
    u.classify(&mut r);
    r
}

/// `variant` selects how the decoding command object was built (window, sort key, range, id/position).
pub fn check_variant(case: &Case, variant: u32) -> CaseResult {
    let mut r = CaseResult::new();
    let v = variant as usize;
    let n_listed = case.entries.len();
    let wire = encode(&case.entries);
    let want = expected(&case.entries);
    let frame = match parse_all(&wire) {
        Ok(mut v) if v.len() == 1 => match v.pop().unwrap().into_single_frame() {
            Ok(f) => f,
            Err(e) => {
                r.fail(format!("listing parsed as an error: {e:?}"));
                return r;
            }
        },
        other => {
            r.fail(format!("well-formed listing not parsed: {:?}", other.map(|v| v.len())));
            return r;
        }
    };

    let songs = want.len();
    let interleaved = case.entries.iter().any(|e| !matches!(e, Entry::Song { .. }));
    let repeated = want.iter().any(|s| s.tags.values().any(|v| v.len() >= 2));
    let both = case.entries.iter().any(|e| match e {
        Entry::Song { lines, .. } => {
            lines.iter().any(|l| matches!(l, Line::TimeSecs(_))) && lines.iter().any(|l| matches!(l, Line::DurationMs(_) | Line::DurationStyled(..)))
        }
        _ => false,
    });
    r.class_if(songs >= 2, "two_or_more_songs");
    r.class_if(songs == 0, "no_songs");
    r.class_if(interleaved, "directory_or_playlist_entries");
    r.class_if(repeated, "repeated_tag");
    r.class_if(both, "time_and_duration");
    let recased = case.entries.iter().any(|e| match e {
        Entry::Song { lines, .. } => lines.iter().any(|l| matches!(l, Line::Tag(k, _) if folded(k) != *k)),
        _ => false,
    });
    r.class_if(recased, "known_tag_in_other_letter_case");
    r.class_if(want.iter().any(|s| s.range.is_some()) && want.iter().any(|s| s.range.is_none()) && songs >= 2, "range_on_some_songs");
    r.class(match case.decoder {
        Decoder::Queue => "Queue",
        Decoder::QueueRange => "QueueRange",
        Decoder::QueueSongId => "Queue::song(id)",
        Decoder::CurrentSong => "CurrentSong",
        Decoder::Find => "Find",
        Decoder::GetPlaylist => "GetPlaylist",
        Decoder::ListAllIn => "ListAllIn",
    });
    if songs >= 2 || interleaved || repeated || both {
        r.nontrivial();
    }

    let verdict: Result<(), String> = (|| match case.decoder {
        Decoder::Queue | Decoder::QueueRange | Decoder::QueueSongId => {
            let got = match case.decoder {
                Decoder::Queue => c::Queue.response(frame),
                Decoder::QueueRange => match v % 6 {
                    0 => c::Queue::range(..).response(frame),
                    1 => c::Queue::range(..c::SongPosition(n_listed / 2)).response(frame),
                    2 => c::Queue::range(c::SongPosition(1)..).response(frame),
                    3 => c::Queue::range(c::SongPosition(0)..c::SongPosition(1)).response(frame),
                    4 => c::QueueRange::range(c::SongPosition(v)..c::SongPosition(v + 1)).response(frame),
                    _ => c::Queue::range(..c::SongPosition(n_listed)).response(frame),
                },
                _ => match v % 3 {
                    0 => c::Queue::song(c::SongId(1)).response(frame),
                    1 => c::Queue::song(c::SongPosition(v)).response(frame),
                    _ => c::QueueRange::song(c::SongId(v as u64)).response(frame),
                },
            }
            .map_err(|e| format!("well-formed listing rejected: {e}"))?;
            if got.len() != want.len() {
                return Err(format!("{} songs decoded, {} file entries listed", got.len(), want.len()));
            }
            got.iter().zip(&want).enumerate().try_for_each(|(i, (g, w))| compare_queue(i, g, w))
        }
        Decoder::CurrentSong => {
            let got = c::CurrentSong.response(frame).map_err(|e| format!("well-formed listing rejected: {e}"))?;
            match (got, want.first()) {
                (None, None) => Ok(()),
                (Some(g), Some(w)) => compare_queue(0, &g, w),
                (g, w) => Err(format!("current song {:?}, listed {:?}", g.map(|s| s.song.url), w.map(|s| &s.url))),
            }
        }
        Decoder::Find | Decoder::GetPlaylist | Decoder::ListAllIn => {
            let got = match case.decoder {
                Decoder::Find => {
                    let mut f = c::Find::new(Filter::tag(Tag::Artist, "x"));
                    if (v / 6) % 2 == 1 {
                        f = f.sort(Tag::Album);
                    }
                    f = match v % 6 {
                        0 => f,
                        1 => f.window(..n_listed / 2),
                        2 => f.window(..n_listed),
                        3 => f.window(1..),
                        4 => f.window(0..1),
                        _ => f.window(v..v + 1),
                    };
                    f.response(frame)
                }
                Decoder::GetPlaylist => c::GetPlaylist(if v % 2 == 0 { "p" } else { "another list" }).response(frame),
                _ => if v % 2 == 0 { c::ListAllIn::root().response(frame) } else { c::ListAllIn::directory("some/dir").response(frame) },
            }
            .map_err(|e| format!("well-formed listing rejected: {e}"))?;
            if got.len() != want.len() {
                return Err(format!("{} songs decoded, {} file entries listed", got.len(), want.len()));
            }
            got.iter().zip(&want).enumerate().try_for_each(|(i, (g, w))| compare_song(i, g, w))
        }
    })();
    if let Err(e) = verdict {
        r.fail(e);
    }
    r
}

const RESERVED: &[&str] = &["file", "directory", "playlist", "duration", "Time", "Range", "Format", "Last-Modified", "Prio", "Pos", "Id", "binary", "OK", "ACK"];

/// MPD prints known tag names in their canonical spelling only.
pub fn canonical_or_unknown(s: &str) -> bool {
    tag_table().iter().all(|(_, n)| !n.eq_ignore_ascii_case(s) || *n == s)
}

/// RFC 3339 timestamps: MPD writes UTC ("Z"); one in four carries another valid way of writing the
/// zone (an offset, `+00:00`, `-00:00`) as other servers and proxies do.
pub fn timestamp() -> impl Strategy<Value = String> {
    (
        (1970..2100u32, 1..=12u32, 1..=28u32, 0..24u32, 0..60u32, 0..60u32),
        prop_oneof![
            12 => Just("Z".to_string()),
            1 => Just("+00:00".to_string()),
            1 => Just("-00:00".to_string()),
            2 => (any::<bool>(), 0..15u32, prop_oneof![Just(0u32), Just(30), Just(45)]).prop_map(|(neg, h, m)| format!("{}{h:02}:{m:02}", if neg { '-' } else { '+' })),
        ],
    )
        .prop_map(|((y, mo, d, h, mi, s), zone)| format!("{y:04}-{mo:02}-{d:02}T{h:02}:{mi:02}:{s:02}{zone}"))
}

/// With the chrono feature: the parsed date-time must be the one the server wrote - same wall-clock
/// reading AND same offset (two values comparing equal as instants is not enough).
#[cfg(feature = "chrono")]
pub fn chrono_agrees(ts: &mpd_client::responses::Timestamp, raw: &str) -> Result<(), String> {
    let dt = ts.chrono_datetime();
    if raw.len() < 20 {
        return Ok(());
    }
    let zone = &raw[19..];
    let want_off: i32 = if zone == "Z" {
        0
    } else {
        let sign = if zone.starts_with('-') { -1 } else { 1 };
        let (h, m) = (zone[1..3].parse::<i32>().unwrap_or(0), zone[4..6].parse::<i32>().unwrap_or(0));
        sign * (h * 3600 + m * 60)
    };
    let wall = dt.format("%Y-%m-%dT%H:%M:%S").to_string();
    if dt.offset().local_minus_utc() != want_off || wall != raw[..19] {
        return Err(format!("chrono_datetime() of {raw:?} reads {wall} at offset {} s, the server wrote {} at offset {want_off} s", dt.offset().local_minus_utc(), &raw[..19]));
    }
    Ok(())
}

#[cfg(not(feature = "chrono"))]
pub fn chrono_agrees(_ts: &mpd_client::responses::Timestamp, _raw: &str) -> Result<(), String> {
    Ok(())
}

fn text() -> impl Strategy<Value = String> {
    prop_oneof![
        4 => "[A-Za-z0-9 ,.'&()-]{1,20}",
        1 => "[^\\n]{1,12}".prop_map(|s| s.trim().to_string()).prop_filter("non-empty", |s| !s.is_empty()),
        1 => Just("OK".to_string()),
        1 => "[0-9]{1,3}(/[0-9]{1,3})?",
    ]
}

fn tag_line() -> impl Strategy<Value = Line> {
    let names: Vec<&'static str> = tag_table().iter().map(|(_, n)| *n).collect();
    let name = prop_oneof![
        4 => prop_oneof![Just("Artist"), Just("Album"), Just("Title"), Just("AlbumArtist"), Just("Track"), Just("Disc"), Just("Genre")].prop_map(str::to_string),
        3 => (0..names.len()).prop_map(move |i| names[i].to_string()),
        1 => prop_oneof![Just("MUSICBRAINZ_RELEASEGROUPID"), Just("Mood"), Just("TitleSort"), Just("ShowMovement"), Just("time"), Just("pos")].prop_map(str::to_string),
        1 => "[A-Z][a-z]{3,8}".prop_filter("not reserved", |s| !RESERVED.contains(&s.as_str()) && canonical_or_unknown(s)),
    ]
    .prop_map(|n| (n, true));
    // an attribute name with the letter case of ONE letter flipped is an ordinary (unknown) tag:
    // attribute names are case-sensitive (`Last-modified`, `File`, `duratioN`, ...)
    let near_miss = (0..9usize, any::<u16>()).prop_filter_map("flip gives a reserved name", |(i, at)| {
        let base = ["file", "duration", "Time", "Range", "Format", "Last-Modified", "Prio", "Pos", "Id"][i];
        let letters: Vec<usize> = base.char_indices().filter(|(_, c)| c.is_ascii_alphabetic()).map(|(j, _)| j).collect();
        let j = letters[crate::core::pick_idx(at, letters.len())];
        let mut b = base.as_bytes().to_vec();
        b[j] ^= 0x20;
        let s = String::from_utf8(b).unwrap();
        (!RESERVED.contains(&s.as_str())).then_some((s, false))
    });
    let name = prop_oneof![12 => name, 1 => near_miss];
    // servers other than MPD may spell known tags in another letter case; the crate parses them
    // case-insensitively, so they belong to the same tag
    (name, text(), 0..12u8).prop_map(|((k, may_recase), v, recase)| {
        let k = match recase {
            0 if may_recase => k.to_lowercase(),
            1 if may_recase => k.to_uppercase(),
            _ => k,
        };
        // recasing must not turn a tag name into an attribute name (`File` -> `file`)
        let k = if RESERVED.contains(&k.as_str()) { format!("{k}x") } else { k };
        Line::Tag(k, v)
    })
}

fn maybe<S: Strategy + 'static>(enabled: bool, p: f64, s: S) -> BoxedStrategy<Option<S::Value>>
where
    S::Value: Clone + std::fmt::Debug,
{
    if enabled {
        prop::option::weighted(p, s).boxed()
    } else {
        Just(None).boxed()
    }
}

fn song(in_queue: bool) -> impl Strategy<Value = Entry> {
    (
        "[a-zA-Z0-9/ _.-]{1,30}\\.(flac|mp3|ogg)",
        prop::option::weighted(0.6, prop_oneof![0..10_000_000u64, any::<u32>().prop_map(u64::from), Just(0u64), (0..8_000_000_000u64).prop_map(|s| s * 1000)]),
        prop::option::weighted(0.5, prop_oneof![0..100_000u64, Just(0u64)]),
        maybe(in_queue, 0.3, (0..1_000_000u64, prop::option::of(0..2_000_000u64))),
        maybe(in_queue, 0.9, (prop_oneof![0..100u64, any::<u32>().prop_map(u64::from)], prop_oneof![0..1000u64, any::<u64>()])),
        maybe(in_queue, 0.3, any::<u8>()),
        prop::option::weighted(0.5, prop_oneof![Just("44100:16:2".to_string()), Just("48000:f:2".to_string()), Just("dsd64:2".to_string()), "[0-9]{4,6}:[0-9]{1,2}:[1-8]"]),
        prop::option::weighted(0.6, timestamp()),
        prop::collection::vec(tag_line(), 0..10usize),
        any::<u64>(),
        0..6u8,
    )
        .prop_map(|(url, dur, time, range, posid, prio, format, lm, tags, shuffle, dstyle)| {
            let mut lines: Vec<Line> = tags;
            if let Some(v) = dur {
                lines.push(if dstyle < 3 { Line::DurationMs(v) } else { Line::DurationStyled(v, dstyle) });
            }
            if let Some(v) = time {
                lines.push(Line::TimeSecs(v));
            }
            if let Some((a, b)) = range {
                lines.push(Line::RangeMs(a, b));
            }
            if let Some((p, i)) = posid {
                lines.push(Line::Pos(p));
                lines.push(Line::Id(i));
            }
            if let Some(p) = prio {
                lines.push(Line::Prio(p));
            }
            if let Some(f) = format {
                lines.push(Line::Format(f));
            }
            if let Some(l) = lm {
                lines.push(Line::LastModified(l));
            }
            // deterministic shuffle (keeps the relative order of equal-named tags irrelevant:
            // expected values are computed from the final order)
            let mut s = shuffle;
            for i in (1..lines.len()).rev() {
                s = crate::core::splitmix64(s);
                lines.swap(i, (s % (i as u64 + 1)) as usize);
            }
            Entry::Song { url, lines }
        })
}

fn other_entry() -> impl Strategy<Value = Entry> {
    prop_oneof![
        ("[a-zA-Z0-9/ _-]{1,20}", prop::option::weighted(0.8, timestamp())).prop_map(|(name, modified)| Entry::Directory { name, modified }),
        ("[a-zA-Z0-9/ _-]{1,20}\\.m3u", prop::option::weighted(0.8, timestamp())).prop_map(|(name, modified)| Entry::Playlist { name, modified }),
    ]
}

fn strategy(_tier: Tier) -> BoxedStrategy<Case> {
    prop_oneof![
        12 => prop::collection::vec(song(true), 0..=30usize).prop_map(|entries| Case { entries, decoder: Decoder::Queue }),
        1 => prop::collection::vec(song(true), 100..=600usize).prop_map(|entries| Case { entries, decoder: Decoder::Queue }),
        8 => prop::collection::vec(song(true), 0..=12usize).prop_map(|entries| Case { entries, decoder: Decoder::QueueRange }),
        4 => prop::collection::vec(song(true), 0..=2usize).prop_map(|entries| Case { entries, decoder: Decoder::QueueSongId }),
        8 => prop::collection::vec(song(true), 0..=1usize).prop_map(|entries| Case { entries, decoder: Decoder::CurrentSong }),
        8 => prop::collection::vec(song(false), 0..=20usize).prop_map(|entries| Case { entries, decoder: Decoder::Find }),
        8 => prop::collection::vec(song(false), 0..=20usize).prop_map(|entries| Case { entries, decoder: Decoder::GetPlaylist }),
        1 => prop::collection::vec(prop_oneof![3 => song(false), 2 => other_entry()], 100..=600usize)
            .prop_map(|entries| Case { entries, decoder: Decoder::ListAllIn }),
        16 => prop::collection::vec(prop_oneof![3 => song(false), 2 => other_entry()], 0..=30usize)
            .prop_map(|entries| Case { entries, decoder: Decoder::ListAllIn }),
    ]
    .boxed()
}

pub fn property(_tier: Tier) -> Property {
    Property {
        id: "C14",
        level: "exploration",
        parts: vec![Box::new(RandomPart {
            name: "listings",
            rule: "proptest: listing of 0-30 entries; songs carry any subset of duration/Time/Range/Pos+Id/Prio/Format/Last-Modified and 0-9 tag lines (named tags, tags unknown to the crate, repeated tags) in shuffled order; database listings (ListAllIn) interleave directory/playlist entries with their own Last-Modified at any position; decoded by Queue, Queue::range, Queue::song(id), CurrentSong (0-1 song), Find, GetPlaylist, ListAllIn and compared field by field (durations at < 1 us tolerance). Two further dimensions per case: the connection's history (fresh in half of the cases; otherwise 1-1500 distinct field names received earlier, the listing's own field names received earlier, or an earlier line of 70 KiB-4 MiB, all on the same connection) and the parameters of the decoding command object (Find windows shorter/longer than the listing and sort keys, Queue ranges, song by id/position, playlist and directory names). non-trivial = >=2 songs, an interleaved directory/playlist entry, a repeated tag, or both Time and duration; the check script runs this with and without the chrono feature; distinct by serialised case",
            cases: (60_000, 2_000_000),
            strategy: Box::new(|t| on_used_connection(strategy(t))),
            check: Box::new(check_used),
        })],
        assumptions: vec![
            "the listing encoder prints entries the way MPD's SongPrint/TagPrint/TimePrint do (canonical tag names, duration with 3 decimals, RFC 3339 UTC timestamps)",
            "per song each attribute line occurs at most once; Pos and Id occur together",
        ],
        selftest: None,
    }
}
