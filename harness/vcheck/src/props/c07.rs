//! C07 — user-supplied strings can never add a command or change list framing.
//! Validity predicate on names / arguments / line counts + rollback model (twin command).

use std::time::Duration;

use bytes::{BufMut, BytesMut};
use mpd_client::{
    commands::{SongId, SongPosition},
    filter::{Filter, Operator},
    tag::Tag,
};
use mpd_protocol::{command::Argument, Command, CommandList};
use proptest::prelude::*;
use serde::{Deserialize, Serialize};

use crate::{
    cmdlab::{arg_string, class_char, sent_bytes, sent_list_bytes},
    core::{escape_bytes, CaseResult, Property, RandomPart, Tier, B},
    mpdtok::{self, LineKind},
};

/// User-defined renderer that appends arbitrary bytes.
pub struct RawBytes(pub Vec<u8>);

impl Argument for RawBytes {
    fn render(&self, buf: &mut BytesMut) {
        buf.put_slice(&self.0);
    }
}

/// User-defined renderer that is not a pure function: emits `first` the first time it is asked
/// to render and `later` every time after that.
pub struct Flaky {
    first: Vec<u8>,
    later: Vec<u8>,
    calls: std::cell::Cell<u32>,
}

impl Argument for Flaky {
    fn render(&self, buf: &mut BytesMut) {
        let n = self.calls.get();
        self.calls.set(n + 1);
        buf.put_slice(if n == 0 { &self.first } else { &self.later });
    }
}

#[derive(Debug, Clone, Serialize, Deserialize)]
pub enum ArgOp {
    Flaky(B, B),
    Str(String),
    OwnedString(String),
    Raw(B),
    Bool(bool),
    U8(u8),
    U16(u16),
    U32(u32),
    U64(u64),
    Usize(u64),
    Dur(u64, u32),
    Id(u64),
    Pos(u64),
    TagOther(String),
    FilterValue(String),
    /// a string of 2^log2 + delta letters followed by `tail` (0 nothing, 1 LF + "kill", 2 LF, 3 NUL,
    /// 4 a blank and a quote); kept symbolic so that replay files stay small
    Giant { log2: u8, delta: i8, tail: u8 },
}

fn giant_string(log2: u8, delta: i8, tail: u8) -> String {
    let n = ((1i64 << log2.min(23)) + delta as i64).max(0) as usize;
    let mut s = "y".repeat(n);
    s.push_str(["", "\nkill", "\n", "\0", " \"x"][tail as usize % 5]);
    s
}

impl ArgOp {
    fn with<R>(&self, f: &mut dyn FnMut(&dyn DynArg) -> R) -> R {
        match self {
            ArgOp::Str(s) => f(&s.as_str()),
            ArgOp::OwnedString(s) => f(&s.clone()),
            ArgOp::Raw(b) => f(&RawBytes(b.0.clone())),
            ArgOp::Flaky(a, b) => f(&Flaky { first: a.0.clone(), later: b.0.clone(), calls: std::cell::Cell::new(0) }),
            ArgOp::Bool(b) => f(b),
            ArgOp::U8(v) => f(v),
            ArgOp::U16(v) => f(v),
            ArgOp::U32(v) => f(v),
            ArgOp::U64(v) => f(v),
            ArgOp::Usize(v) => f(&(*v as usize)),
            ArgOp::Dur(s, n) => f(&Duration::new(*s, *n % 1_000_000_000)),
            ArgOp::Id(v) => f(&SongId(*v)),
            ArgOp::Pos(v) => f(&SongPosition(*v as usize)),
            ArgOp::TagOther(s) => f(&Tag::Other(s.clone().into_boxed_str())),
            ArgOp::FilterValue(s) => f(&Filter::new(Tag::Artist, Operator::Equal, s.clone())),
            ArgOp::Giant { log2, delta, tail } => f(&giant_string(*log2, *delta, *tail).as_str()),
        }
    }
}

/// Object-safe view of `Argument` so one code path serves every argument type.
pub trait DynArg {
    fn render_dyn(&self, buf: &mut BytesMut);
    fn add_to(&self, cmd: &mut Command) -> Result<(), String>;
}

impl<A: Argument> DynArg for A {
    fn render_dyn(&self, buf: &mut BytesMut) {
        self.render(buf);
    }
    fn add_to(&self, cmd: &mut Command) -> Result<(), String> {
        // Display of the error must not panic either
        cmd.add_argument(self).map_err(|e| e.to_string())
    }
}

#[derive(Debug, Clone, Serialize, Deserialize)]
pub struct CmdSpec {
    pub name: String,
    pub ops: Vec<ArgOp>,
}

#[derive(Debug, Clone, Serialize, Deserialize)]
pub struct Case {
    pub cmds: Vec<CmdSpec>,
    /// how the list is assembled: 0 new+add, 1 new+command, 2 new+extend, 3 mixed
    pub assemble: u8,
}

const KEYWORDS: [&str; 3] = ["command_list_begin", "command_list_ok_begin", "command_list_end"];

fn must_reject(name: &str) -> bool {
    name.is_empty()
        || name.chars().any(|c| !(c.is_ascii_alphanumeric() || c == '_'))
        || KEYWORDS.contains(&name)
}

fn edit_distance(a: &str, b: &str) -> usize {
    let a: Vec<char> = a.chars().collect();
    let b: Vec<char> = b.chars().collect();
    let mut prev: Vec<usize> = (0..=b.len()).collect();
    for i in 1..=a.len() {
        let mut cur = vec![i];
        for j in 1..=b.len() {
            let sub = prev[j - 1] + usize::from(a[i - 1] != b[j - 1]);
            cur.push(sub.min(prev[j] + 1).min(cur[j - 1] + 1));
        }
        prev = cur;
    }
    prev[b.len()]
}

/// under three hashers (see props/c20.rs)
fn hash_of(c: &Command) -> (u64, u64, u64) {
    crate::props::c20::h(c)
}

pub fn check(case: &Case) -> CaseResult {
    let mut r = CaseResult::new();
    let mut built: Vec<Command> = Vec::new();

    for spec in &case.cmds {
        let near = KEYWORDS.iter().any(|k| edit_distance(&spec.name, k) <= 2);
        if near {
            r.class("name_near_list_keyword");
            r.nontrivial();
        }
        let res = Command::build(&spec.name);
        if let Err(e) = &res {
            let _ = e.to_string();
        }
        if must_reject(&spec.name) {
            r.class("name_must_reject");
            if res.is_ok() {
                r.fail(format!("Command::build accepted the name {:?}", spec.name));
                return r;
            }
            continue;
        }
        let Ok(mut cmd) = res else {
            r.class("name_rejected_stricter_than_required");
            continue;
        };
        r.class("name_accepted");
        let mut twin = Command::build(&spec.name).expect("same name builds twice");
        let (mut accepted, mut rejected) = (0, 0);
        let mut any_impure = false;

        for op in &spec.ops {
            let mut rendered = BytesMut::new();
            let impure = matches!(op, ArgOp::Flaky(..));
            if impure {
                // what such an argument "contains" is undefined; only the outcome is judged: the
                // command must stay one line, a rejection must roll back
                any_impure = true;
            } else {
                op.with(&mut |a| a.render_dyn(&mut rendered));
            }
            let has_lf = rendered.contains(&b'\n');
            let snapshot = cmd.clone();
            let snap_hash = hash_of(&cmd);
            let snap_bytes = sent_bytes(cmd.clone());
            let snap_debug = format!("{cmd:?}");
            let res = op.with(&mut |a| a.add_to(&mut cmd));
            match res {
                Ok(()) => {
                    if has_lf {
                        r.fail(format!(
                            "add_argument accepted {:?}, whose rendering {:?} contains a line feed",
                            op,
                            escape_bytes(&rendered)
                        ));
                        return r;
                    }
                    accepted += 1;
                    if !any_impure {
                        op.with(&mut |a| a.add_to(&mut twin)).expect("twin accepts what main accepted");
                    }
                }
                Err(_) => {
                    rejected += 1;
                    r.class_if(has_lf, "rejected_lf");
                    r.class_if(!has_lf, "rejected_other_reason");
                    if cmd != snapshot
                        || hash_of(&cmd) != snap_hash
                        || sent_bytes(cmd.clone()) != snap_bytes
                        || format!("{cmd:?}") != snap_debug
                    {
                        r.fail(format!(
                            "rejected argument {:?} changed the command: before {:?}, after {:?}",
                            op,
                            escape_bytes(&snap_bytes),
                            escape_bytes(&sent_bytes(cmd.clone()))
                        ));
                        return r;
                    }
                }
            }
            // one protocol line, whatever happened so far
            let bytes = sent_bytes(cmd.clone());
            if bytes.iter().filter(|&&b| b == b'\n').count() != 1 || bytes.last() != Some(&b'\n') {
                r.fail(format!("command occupies more than one line: {:?}", escape_bytes(&bytes)));
                return r;
            }
        }
        if accepted > 0 && rejected > 0 {
            r.class("rejected_and_accepted");
            r.nontrivial();
        }
        r.class_if(any_impure, "impure_renderer");
        if !any_impure && (cmd != twin || hash_of(&cmd) != hash_of(&twin) || sent_bytes(cmd.clone()) != sent_bytes(twin.clone())) {
            r.fail(format!(
                "after rejected arguments the command differs from one that never saw them: {:?} vs {:?}",
                escape_bytes(&sent_bytes(cmd.clone())),
                escape_bytes(&sent_bytes(twin))
            ));
            return r;
        }
        let bytes = sent_bytes(cmd.clone());
        let line = &bytes[..bytes.len() - 1];
        if mpdtok::line_kind(line) != LineKind::Other {
            r.fail(format!("command line {:?} is list framing for MPD", escape_bytes(line)));
            return r;
        }
        built.push(cmd);
    }

    // list framing
    if built.is_empty() {
        return r;
    }
    let n = built.len();
    let singles: Vec<Vec<u8>> = built.iter().map(|c| sent_bytes(c.clone())).collect();
    let mut it = built.into_iter();
    let mut list = CommandList::new(it.next().unwrap());
    match case.assemble % 4 {
        0 => {
            for c in it {
                list.add(c);
            }
        }
        1 => {
            for c in it {
                list = list.command(c);
            }
        }
        2 => list.extend(it.filter(|_| true)),
        _ => {
            let rest: Vec<Command> = it.collect();
            let mid = rest.len() / 2;
            let mut rest = rest.into_iter();
            for c in rest.by_ref().take(mid) {
                list.add(c);
            }
            list.extend(rest);
        }
    }
    if list.len() != n {
        r.fail(format!("CommandList::len() = {} for {n} commands", list.len()));
        return r;
    }
    let bytes = sent_list_bytes(list);
    let lines = match mpdtok::split_lines(&bytes) {
        Ok(l) => l,
        Err(e) => {
            r.fail(e);
            return r;
        }
    };
    if n == 1 {
        r.class("list_of_one");
        if bytes != singles[0] {
            r.fail(format!("list of one written as {:?}", escape_bytes(&bytes)));
        }
    } else {
        r.class("list_of_many");
        if lines.len() != n + 2 {
            r.fail(format!("{} lines written for a list of {n}: {:?}", lines.len(), escape_bytes(&bytes)));
            return r;
        }
        for (i, l) in lines.iter().enumerate() {
            let want = if i == 0 {
                LineKind::ListOkBegin
            } else if i == n + 1 {
                LineKind::ListEnd
            } else {
                LineKind::Other
            };
            if mpdtok::line_kind(l) != want {
                r.fail(format!("line {i} of the list block is {:?}, expected kind {want:?}", escape_bytes(l)));
                return r;
            }
            if (1..=n).contains(&i) && *l != &singles[i - 1][..singles[i - 1].len() - 1] {
                r.fail(format!(
                    "line {i} of the list block is {:?}, the command alone is {:?}",
                    escape_bytes(l),
                    escape_bytes(&singles[i - 1])
                ));
                return r;
            }
        }
    }
    r
}

fn near_miss_name() -> impl Strategy<Value = String> {
    let kw = prop_oneof![
        Just("command_list_begin"),
        Just("command_list_ok_begin"),
        Just("command_list_end"),
        Just("command_list"),
        Just("command_list_"),
        Just("noidle"),
        Just("idle"),
    ];
    (kw, 0..12u8, class_char(), 0..24usize).prop_map(|(k, how, c, pos)| {
        let k = k.to_string();
        let pos = pos.min(k.len());
        match how {
            0 => k,
            1 => format!("{k}{c}"),
            2 => format!("{c}{k}"),
            3 => k.to_uppercase(),
            4 => {
                let mut s = k.clone();
                s.insert(pos, c);
                s
            }
            5 => {
                let mut s = k.clone();
                if pos < s.len() {
                    s.remove(pos);
                }
                s
            }
            6 => format!("{k} "),
            7 => format!("{k}\n"),
            8 => format!("x{k}"),
            9 => format!("{k}x"),
            10 => format!("{k}\0"),
            _ => {
                let mut cs: Vec<char> = k.chars().collect();
                if pos < cs.len() {
                    cs[pos] = cs[pos].to_ascii_uppercase();
                }
                cs.into_iter().collect()
            }
        }
    })
}

fn any_name() -> impl Strategy<Value = String> {
    prop_oneof![
        4 => "[A-Za-z][A-Za-z_]{0,12}",
        4 => near_miss_name(),
        1 => Just(String::new()),
        2 => "[A-Za-z0-9_]{1,10}",
        2 => prop::collection::vec(class_char(), 1..8usize).prop_map(|v| v.into_iter().collect::<String>()),
        1 => ("[a-z]{1,6}", prop_oneof![Just(" "), Just("\n"), Just("\t"), Just("\""), Just("\0"), Just("\u{e9}"), Just("-"), Just("\r")], "[a-z]{0,6}")
            .prop_map(|(a, b, c)| format!("{a}{b}{c}")),
        1 => any::<String>(),
    ]
}

fn lf_string() -> impl Strategy<Value = String> {
    (arg_string(10), arg_string(10), 0..6u8).prop_map(|(a, b, how)| match how {
        0 => format!("\n{a}"),
        1 => format!("{a}\n"),
        2 => format!("{a}\n{b}"),
        3 => "\n".to_string(),
        4 => format!("{a}\r\n{b}"),
        _ => format!("{a}\nstatus\n{b}"),
    })
}

fn raw_bytes() -> impl Strategy<Value = B> {
    prop_oneof![
        3 => prop::collection::vec(any::<u8>(), 0..24usize).prop_map(B),
        2 => lf_string().prop_map(|s| B(s.into_bytes())),
        1 => Just(B(b"\ncommand_list_end".to_vec())),
        1 => Just(B(Vec::new())),
    ]
}

fn arg_op() -> impl Strategy<Value = ArgOp> {
    prop_oneof![
        4 => arg_string(40).prop_map(ArgOp::Str),
        2 => arg_string(40).prop_map(ArgOp::OwnedString),
        3 => lf_string().prop_map(ArgOp::Str),
        1 => lf_string().prop_map(ArgOp::OwnedString),
        3 => raw_bytes().prop_map(ArgOp::Raw),
        1 => (raw_bytes(), raw_bytes()).prop_map(|(a, b)| ArgOp::Flaky(a, b)),
        1 => (arg_string(8), lf_string()).prop_map(|(a, b)| ArgOp::Flaky(B(a.into_bytes()), B(b.into_bytes()))),
        1 => any::<bool>().prop_map(ArgOp::Bool),
        1 => any::<u8>().prop_map(ArgOp::U8),
        1 => any::<u16>().prop_map(ArgOp::U16),
        1 => any::<u32>().prop_map(ArgOp::U32),
        1 => any::<u64>().prop_map(ArgOp::U64),
        1 => any::<u64>().prop_map(ArgOp::Usize),
        1 => (any::<u64>(), any::<u32>()).prop_map(|(s, n)| ArgOp::Dur(s, n)),
        1 => any::<u64>().prop_map(ArgOp::Id),
        1 => any::<u64>().prop_map(ArgOp::Pos),
        1 => prop_oneof![arg_string(12), lf_string()].prop_map(ArgOp::TagOther),
        1 => prop_oneof![arg_string(12), lf_string()].prop_map(ArgOp::FilterValue),
    ]
}

fn strategy(_tier: Tier) -> BoxedStrategy<Case> {
    (
        prop::collection::vec(
            (any_name(), prop::collection::vec(arg_op(), 0..=10usize))
                .prop_map(|(name, ops)| CmdSpec { name, ops }),
            1..=6usize,
        ),
        0..4u8,
    )
        .prop_map(|(cmds, assemble)| Case { cmds, assemble })
        .boxed()
}

/// One command whose arguments include one or two very long strings (sizes on a logarithmic scale up
/// to 4 MiB, so that cumulative lengths cross every power of two up to 8 MiB), with and without a
/// line feed / NUL at their end.
fn giant_strategy(tier: Tier) -> BoxedStrategy<Case> {
    let top = tier.pick(21u8, 22u8);
    let giant = move || (12..=top, -2..=2i8, prop_oneof![2 => Just(0u8), 3 => Just(1), 1 => Just(2), 1 => Just(3), 1 => Just(4)]).prop_map(|(log2, delta, tail)| ArgOp::Giant { log2, delta, tail });
    let big = move || (19..=top, -2..=2i8, prop_oneof![1 => Just(0u8), 2 => Just(1)]).prop_map(|(log2, delta, tail)| ArgOp::Giant { log2, delta, tail });
    (
        prop::collection::vec(arg_op(), 0..3usize),
        prop_oneof![
            2 => giant().prop_map(|g| vec![g]),
            2 => (giant(), giant()).prop_map(|(a, b)| vec![a, b]),
            3 => (big(), big()).prop_map(|(a, b)| vec![a, b]),
            1 => (big(), big(), big()).prop_map(|(a, b, c)| vec![a, b, c]),
        ],
        prop::collection::vec(arg_op(), 0..3usize),
        0..4u8,
    )
        .prop_map(|(before, giants, after, assemble)| {
            let mut ops = before;
            ops.extend(giants);
            ops.extend(after);
            Case { cmds: vec![CmdSpec { name: "sendmessage".into(), ops }, CmdSpec { name: "ping".into(), ops: vec![] }], assemble }
        })
        .boxed()
}

pub fn property(_tier: Tier) -> Property {
    Property {
        id: "C07",
        level: "exploration",
        parts: vec![Box::new(RandomPart {
            name: "histories",
            rule: "proptest: 1-6 commands, each an arbitrary (near-miss biased) name and 0-10 add_argument calls over every Argument type incl. a raw-bytes renderer, Tag::Other and Filter values with LF at first/middle/last position; then sent alone and as a CommandList assembled by add/command/extend; non-trivial = a command with >=1 rejected and >=1 accepted argument, or a name within edit distance 2 of a list keyword; distinct by serialised case",
            cases: (100_000, 8_000_000),
            strategy: Box::new(strategy),
            check: Box::new(check),
        }), Box::new(RandomPart {
            name: "giant_arguments",
            rule: "proptest: one command with 0-2 ordinary add_argument calls, then 1-3 arguments of 2^k + d letters (k = 12..21, thorough 22; often two or three of 512 KiB - 4 MiB in a row so that the line grows past 1, 2, 4 and 8 MiB), each optionally ending in LF+text / LF / NUL / blank+quote, then 0-2 ordinary ones; same judge as 'histories' (acceptance only without LF, exact rollback after a rejection, one line on the wire, list framing). non-trivial as there",
            cases: (400, 20_000),
            strategy: Box::new(giant_strategy),
            check: Box::new(check),
        }), crate::props::c06::context_part()],
        assumptions: vec![
            "MPD recognises list framing by exact comparison of the right-stripped line (client/Process.cxx)",
            "renderers that rewrite earlier buffer content are outside 'user-supplied strings'",
        ],
        selftest: Some(mpdtok::selftest),
    }
}
