//! C16 — status, stats, count, list, playlist and sticker replies decode faithfully.
//! Round trip against abstract replies + variants with one value pushed out of its domain.

use std::{collections::HashMap, time::Duration};

use mpd_client::{
    commands::{self as c, Command as TypedCommand, ReplayGainMode, SingleMode},
    filter::Filter,
    responses::PlayState,
    tag::Tag,
};
use mpd_protocol::response::Frame;
use proptest::prelude::*;
use serde::{Deserialize, Serialize};

use crate::{
    core::{pick_idx, splitmix64, CaseResult, Property, RandomPart, Tier},
    props::{
        c14::timestamp,
        c20::{tag_name, tag_table},
    },
    streamlab::{on_used_connection, parse_all, with_history, OnUsedConnection},
};

type Lines = Vec<(String, String)>;

#[derive(Debug, Clone, Serialize, Deserialize)]
pub struct AStatus {
    pub volume: Option<u8>,
    pub state: u8,
    pub repeat: bool,
    pub random: bool,
    pub consume: bool,
    pub single: Option<u8>,
    pub playlist: Option<u32>,
    pub playlistlength: Option<u64>,
    pub song: Option<(u64, u64)>,
    pub nextsong: Option<(u64, u64)>,
    pub elapsed_ms: Option<u64>,
    pub duration_ms: Option<u64>,
    pub bitrate: Option<u64>,
    pub xfade: Option<u64>,
    pub updating_db: Option<u64>,
    pub error: Option<String>,
    pub partition: Option<String>,
    pub extras: bool,
    pub shuffle: u64,
    /// how fractional seconds are printed (see c14::ms_styled)
    #[serde(default)]
    pub dur_style: u8,
}

#[derive(Debug, Clone, Serialize, Deserialize)]
pub enum Reply {
    Status(AStatus),
    Stats { artists: u64, albums: u64, songs: u64, uptime: u64, playtime: u64, db_playtime: u64, db_update: u64, shuffle: u64 },
    Count { songs: u64, playtime_ms: u64, playtime_first: bool },
    /// grouped count: (group key, songs, playtime secs, playtime line first)
    CountGrouped { tag: u16, groups: Vec<(String, u64, u64, bool)> },
    ListPlain { tag: u16, values: Vec<String> },
    /// one grouping tag: groups of (key, values)
    ListGrouped1 { tags: (u16, u16), groups: Vec<(String, Vec<String>)> },
    /// two grouping tags: outer groups of (key, inner groups); `inner_first`: order passed to group_by
    ListGrouped2 { tags: (u16, u16, u16), groups: Vec<(String, Vec<(String, Vec<String>)>)>, inner_first: bool },
    Playlists(Vec<(String, String)>),
    StickerGet { name: String, value: String },
    StickerList(Vec<(String, String)>),
    StickerFind { name: String, files: Vec<(String, String)> },
    Channels(Vec<String>),
    Messages(Vec<(String, String)>),
    TagTypes(Vec<String>),
    Update { job: u64, rescan: bool },
    ReplayGain(u8),
    AddId(u64),
}

/// Replace the value of one line by something unambiguously outside the field's domain.
#[derive(Debug, Clone, Serialize, Deserialize)]
pub struct Spoil {
    pub which: u16,
    pub how: u8,
}

#[derive(Debug, Clone, Serialize, Deserialize)]
pub struct Case {
    pub reply: Reply,
    pub spoil: Option<Spoil>,
}

fn ms(v: u64) -> String {
    format!("{}.{:03}", v / 1000, v % 1000)
}

fn shuffled(mut lines: Lines, seed: u64, keep_pairs: &[(&str, &str)]) -> Lines {
    // deterministic shuffle of whole units (pairs such as song/songid stay adjacent)
    let mut units: Vec<Lines> = Vec::new();
    while let Some(l) = lines.first().cloned() {
        lines.remove(0);
        let mut unit = vec![l];
        if let Some((_, second)) = keep_pairs.iter().find(|(a, _)| *a == unit[0].0) {
            if let Some(i) = lines.iter().position(|(k, _)| k == second) {
                unit.push(lines.remove(i));
            }
        }
        units.push(unit);
    }
    let mut s = seed;
    for i in (1..units.len()).rev() {
        s = splitmix64(s);
        units.swap(i, (s % (i as u64 + 1)) as usize);
    }
    units.concat()
}

fn tname(i: u16) -> (Tag, String) {
    let t = tag_table();
    let (tag, n) = t[pick_idx(i, t.len())].clone();
    (tag, n.to_string())
}

/// three distinct tags derived from three indices
fn distinct_tags(a: u16, b: u16, c3: u16) -> [(Tag, String); 3] {
    let t = tag_table();
    let n = t.len();
    let i = pick_idx(a, n);
    let mut j = pick_idx(b, n);
    if j == i {
        j = (j + 1) % n;
    }
    let mut k = pick_idx(c3, n);
    while k == i || k == j {
        k = (k + 1) % n;
    }
    [(t[i].0.clone(), t[i].1.to_string()), (t[j].0.clone(), t[j].1.to_string()), (t[k].0.clone(), t[k].1.to_string())]
}

pub fn lines_of(reply: &Reply) -> Lines {
    let l = |k: &str, v: String| (k.to_string(), v);
    match reply {
        Reply::Status(s) => {
            let mut v: Lines = Vec::new();
            if let Some(x) = s.volume {
                v.push(l("volume", x.to_string()));
            }
            v.push(l("repeat", u8::from(s.repeat).to_string()));
            v.push(l("random", u8::from(s.random).to_string()));
            if let Some(x) = s.single {
                v.push(l("single", ["0", "1", "oneshot"][x as usize % 3].to_string()));
            }
            v.push(l("consume", u8::from(s.consume).to_string()));
            if let Some(x) = &s.partition {
                v.push(l("partition", x.clone()));
            }
            if let Some(x) = s.playlist {
                v.push(l("playlist", x.to_string()));
            }
            if let Some(x) = s.playlistlength {
                v.push(l("playlistlength", x.to_string()));
            }
            if s.extras {
                v.push(l("mixrampdb", "0".to_string()));
                v.push(l("mixrampdelay", "nan".to_string()));
            }
            v.push(l("state", ["play", "pause", "stop"][s.state as usize % 3].to_string()));
            if let Some(x) = s.xfade {
                v.push(l("xfade", x.to_string()));
            }
            if let Some((p, i)) = s.song {
                v.push(l("song", p.to_string()));
                v.push(l("songid", i.to_string()));
            }
            if let (true, Some(d)) = (s.extras, s.duration_ms) {
                // the legacy lower-case time line only ever accompanies duration
                v.push(l("time", format!("{}:{}", s.elapsed_ms.unwrap_or(0) / 1000, d / 1000)));
            }
            if let Some(x) = s.elapsed_ms {
                v.push(l("elapsed", crate::props::c14::ms_styled(x, s.dur_style)));
            }
            if let Some(x) = s.bitrate {
                v.push(l("bitrate", x.to_string()));
            }
            if let Some(x) = s.duration_ms {
                v.push(l("duration", crate::props::c14::ms_styled(x, s.dur_style >> 2)));
            }
            if s.extras {
                v.push(l("audio", "44100:24:2".to_string()));
            }
            if let Some(x) = s.updating_db {
                v.push(l("updating_db", x.to_string()));
            }
            if let Some(x) = &s.error {
                v.push(l("error", x.clone()));
            }
            if let Some((p, i)) = s.nextsong {
                v.push(l("nextsong", p.to_string()));
                v.push(l("nextsongid", i.to_string()));
            }
            if s.shuffle == 0 {
                v
            } else {
                shuffled(v, s.shuffle, &[("song", "songid"), ("nextsong", "nextsongid")])
            }
        }
        Reply::Stats { artists, albums, songs, uptime, playtime, db_playtime, db_update, shuffle } => {
            let v = vec![
                l("uptime", uptime.to_string()),
                l("playtime", playtime.to_string()),
                l("artists", artists.to_string()),
                l("albums", albums.to_string()),
                l("songs", songs.to_string()),
                l("db_playtime", db_playtime.to_string()),
                l("db_update", db_update.to_string()),
            ];
            if *shuffle == 0 {
                v
            } else {
                shuffled(v, *shuffle, &[])
            }
        }
        Reply::Count { songs, playtime_ms, playtime_first } => {
            let a = l("songs", songs.to_string());
            // MPD prints whole seconds; fractional values are accepted by the f64 parser as well
            let b = l("playtime", if playtime_ms % 1000 == 0 { (playtime_ms / 1000).to_string() } else { ms(*playtime_ms) });
            if *playtime_first {
                vec![b, a]
            } else {
                vec![a, b]
            }
        }
        Reply::CountGrouped { tag, groups } => {
            let (_, name) = tname(*tag);
            let mut v = Vec::new();
            for (key, songs, playtime, pf) in groups {
                v.push((name.clone(), key.clone()));
                let a = l("songs", songs.to_string());
                let b = l("playtime", playtime.to_string());
                if *pf {
                    v.extend([b, a]);
                } else {
                    v.extend([a, b]);
                }
            }
            v
        }
        Reply::ListPlain { tag, values } => {
            let (_, name) = tname(*tag);
            values.iter().map(|x| (name.clone(), x.clone())).collect()
        }
        Reply::ListGrouped1 { tags, groups } => {
            let [(_, p), (_, g), _] = distinct_tags(tags.0, tags.1, 0);
            let mut v = Vec::new();
            for (key, vals) in groups {
                v.push((g.clone(), key.clone()));
                v.extend(vals.iter().map(|x| (p.clone(), x.clone())));
            }
            v
        }
        Reply::ListGrouped2 { tags, groups, .. } => {
            let [(_, p), (_, inner), (_, outer)] = distinct_tags(tags.0, tags.1, tags.2);
            let mut v = Vec::new();
            for (okey, inners) in groups {
                v.push((outer.clone(), okey.clone()));
                for (ikey, vals) in inners {
                    v.push((inner.clone(), ikey.clone()));
                    v.extend(vals.iter().map(|x| (p.clone(), x.clone())));
                }
            }
            v
        }
        Reply::Playlists(ps) => ps.iter().flat_map(|(n, t)| [l("playlist", n.clone()), l("Last-Modified", t.clone())]).collect(),
        Reply::StickerGet { name, value } => vec![l("sticker", format!("{name}={value}"))],
        Reply::StickerList(items) => items.iter().map(|(n, v)| l("sticker", format!("{n}={v}"))).collect(),
        Reply::StickerFind { name, files } => {
            files.iter().flat_map(|(f, v)| [l("file", f.clone()), l("sticker", format!("{name}={v}"))]).collect()
        }
        Reply::Channels(cs) => cs.iter().map(|x| l("channel", x.clone())).collect(),
        Reply::Messages(ms) => ms.iter().flat_map(|(ch, m)| [l("channel", ch.clone()), l("message", m.clone())]).collect(),
        Reply::TagTypes(ts) => ts.iter().map(|x| l("tagtype", x.clone())).collect(),
        Reply::Update { job, .. } => vec![l("updating_db", job.to_string())],
        Reply::ReplayGain(m) => vec![l("replay_gain_mode", ["off", "track", "album", "auto"][*m as usize % 4].to_string())],
        Reply::AddId(id) => vec![l("Id", id.to_string())],
    }
}

fn frame_of(lines: &Lines) -> Result<Frame, String> {
    let mut wire = String::new();
    for (k, v) in lines {
        wire.push_str(&format!("{k}: {v}\n"));
    }
    wire.push_str("OK\n");
    let mut v = parse_all(wire.as_bytes())?;
    if v.len() != 1 {
        return Err(format!("{} responses", v.len()));
    }
    v.pop().unwrap().into_single_frame().map_err(|e| format!("{e:?}"))
}

fn close(d: Duration, want_ms: u64) -> bool {
    let want = Duration::from_millis(want_ms);
    let diff = if d > want { d - want } else { want - d };
    diff < Duration::from_micros(1)
}

fn opt_close(d: Option<Duration>, want: Option<u64>) -> bool {
    match (d, want) {
        (None, None) => true,
        (Some(d), Some(w)) => close(d, w),
        _ => false,
    }
}

/// Lines whose value has a domain, with an unambiguous out-of-domain replacement.
fn spoil_value(key: &str, how: u8) -> Option<&'static str> {
    let numeric: &[&str] = &["abc", "-1", "", "1x", "99999999999999999999999"];
    let pick = |opts: &'static [&'static str]| Some(opts[how as usize % opts.len()]);
    let _ = numeric;
    match key {
        "volume" => pick(&["abc", "-5", "256", "", "1x"]),
        "repeat" | "random" | "consume" => pick(&["2", "yes", "", "-1", "true"]),
        "single" => pick(&["2", "one", "", "yes"]),
        "state" => pick(&["playing", "", "PLAY", "3"]),
        "playlist" => pick(&["abc", "-1", "4294967296", ""]),
        "playlistlength" | "song" | "songid" | "nextsong" | "nextsongid" | "bitrate" | "updating_db" | "artists" | "albums" | "songs"
        | "db_update" | "Id" => pick(&["abc", "-1", "", "1x", "99999999999999999999999"]),
        "elapsed" | "duration" | "xfade" | "uptime" | "playtime" | "db_playtime" => {
            // 2^64 s and beyond cannot be represented by a Duration
            pick(&["abc", "-1", "", "1:2", "1e999", "18446744073709551616", "18446744073709551616.000", "1e20", "-0.001"])
        }
        "replay_gain_mode" => pick(&["on", "", "Track", "2"]),
        "tagtype" => pick(&["", "a b", "x.y", "T2"]),
        "sticker" => pick(&["novalue", "", "no equals sign"]),
        _ => None,
    }
}

pub fn check(case: &Case) -> CaseResult {
    let mut r = CaseResult::new();
    let mut lines = lines_of(&case.reply);
    let mut spoiled: Option<String> = None;
    if let Some(sp) = &case.spoil {
        // `playlist` is a number only in status; in listplaylists it is a name without a domain
        let in_status = matches!(case.reply, Reply::Status(_));
        let cands: Vec<usize> = lines
            .iter()
            .enumerate()
            .filter(|(_, (k, _))| spoil_value(k, sp.how).is_some() && (in_status || k != "playlist"))
            .map(|(i, _)| i)
            .collect();
        if !cands.is_empty() {
            let i = cands[pick_idx(sp.which, cands.len())];
            // under chrono a bad timestamp is also out of domain, without it any string is fine
            let bad = spoil_value(&lines[i].0, sp.how).unwrap();
            spoiled = Some(format!("{}: {bad:?}", lines[i].0));
            lines[i].1 = bad.to_string();
        }
    }
    let frame = match frame_of(&lines) {
        Ok(f) => f,
        Err(e) => {
            r.fail(format!("well-formed reply not parsed: {e}"));
            return r;
        }
    };
    r.class_if(spoiled.is_some(), "one_value_out_of_domain");

    macro_rules! done {
        ($kind:literal, $res:expr, $cmp:expr) => {{
            r.class($kind);
            match ($res, &spoiled) {
                (Ok(_), Some(s)) => r.fail(format!("{}: out-of-domain value {s} decoded to a value instead of an error", $kind)),
                (Err(_), Some(_)) => r.nontrivial(),
                (Err(e), None) => r.fail(format!("{}: well-formed reply rejected: {e}", $kind)),
                (Ok(v), None) => {
                    #[allow(clippy::redundant_closure_call)]
                    let verdict: Result<(), String> = ($cmp)(v);
                    if let Err(e) = verdict {
                        r.fail(format!("{}: {e}", $kind));
                    }
                }
            }
        }};
    }

    match &case.reply {
        Reply::Status(s) => {
            let present = [s.volume.is_some(), s.single.is_some(), s.song.is_some(), s.nextsong.is_some(), s.elapsed_ms.is_some(), s.duration_ms.is_some(), s.bitrate.is_some(), s.updating_db.is_some(), s.error.is_some(), s.partition.is_some()];
            if present.iter().any(|p| *p) && present.iter().any(|p| !*p) {
                r.nontrivial();
            }
            r.class_if(s.shuffle != 0, "shuffled_field_order");
            done!("status", c::Status.response(frame), |v: mpd_client::responses::Status| {
                let want_state = [PlayState::Playing, PlayState::Paused, PlayState::Stopped][s.state as usize % 3];
                let want_single = match s.single {
                    None => SingleMode::Disabled,
                    Some(x) => [SingleMode::Disabled, SingleMode::Enabled, SingleMode::Oneshot][x as usize % 3],
                };
                let e = |f: &str| Err(format!("field {f} decoded wrongly: {v:?} from {s:?}"));
                if v.volume != s.volume.unwrap_or(0) {
                    return e("volume");
                }
                if v.state != want_state {
                    return e("state");
                }
                if v.repeat != s.repeat {
                    return e("repeat");
                }
                if v.random != s.random {
                    return e("random");
                }
                if v.consume != s.consume {
                    return e("consume");
                }
                if v.single != want_single {
                    return e("single");
                }
                if v.playlist_version != s.playlist.unwrap_or(0) {
                    return e("playlist");
                }
                if v.playlist_length as u64 != s.playlistlength.unwrap_or(0) {
                    return e("playlistlength");
                }
                if v.current_song.map(|(p, i)| (p.0 as u64, i.0)) != s.song {
                    return e("song/songid");
                }
                if v.next_song.map(|(p, i)| (p.0 as u64, i.0)) != s.nextsong {
                    return e("nextsong/nextsongid");
                }
                if !opt_close(v.elapsed, s.elapsed_ms) {
                    return e("elapsed");
                }
                if !opt_close(v.duration, s.duration_ms) {
                    return e("duration");
                }
                if v.bitrate != s.bitrate {
                    return e("bitrate");
                }
                if v.crossfade != Duration::from_secs(s.xfade.unwrap_or(0)) {
                    return e("xfade");
                }
                if v.update_job != s.updating_db {
                    return e("updating_db");
                }
                if v.error != s.error {
                    return e("error");
                }
                if v.partition != s.partition {
                    return e("partition");
                }
                Ok(())
            });
        }
        Reply::Stats { artists, albums, songs, uptime, playtime, db_playtime, db_update, .. } => {
            done!("stats", c::Stats.response(frame), |v: mpd_client::responses::Stats| {
                if (v.artists, v.albums, v.songs, v.db_last_update) != (*artists, *albums, *songs, *db_update)
                    || v.uptime != Duration::from_secs(*uptime)
                    || v.playtime != Duration::from_secs(*playtime)
                    || v.db_playtime != Duration::from_secs(*db_playtime)
                {
                    return Err(format!("decoded {v:?}"));
                }
                Ok(())
            });
        }
        Reply::Count { songs, playtime_ms, .. } => {
            done!("count", c::Count::new(Filter::tag(Tag::Artist, "x")).response(frame), |v: mpd_client::responses::Count| {
                if v.songs != *songs || !close(v.playtime, *playtime_ms) {
                    return Err(format!("decoded {v:?}, sent songs {songs} playtime {playtime_ms} ms"));
                }
                Ok(())
            });
        }
        Reply::CountGrouped { tag, groups } => {
            if groups.len() >= 2 {
                r.nontrivial();
            }
            let (t, _) = tname(*tag);
            done!("count_grouped", c::CountGrouped::new(t).response(frame), |v: Vec<(String, mpd_client::responses::Count)>| {
                let got: Vec<(String, u64, Duration)> = v.iter().map(|(k, c)| (k.clone(), c.songs, c.playtime)).collect();
                let want: Vec<(String, u64, Duration)> = groups.iter().map(|(k, s, p, _)| (k.clone(), *s, Duration::from_secs(*p))).collect();
                if got != want {
                    return Err(format!("decoded {got:?}, sent {want:?}"));
                }
                Ok(())
            });
        }
        Reply::ListPlain { tag, values } => {
            let (t, _) = tname(*tag);
            done!("list", c::List::new(t).response(frame), |v: mpd_client::responses::List<0>| {
                let got: Vec<&str> = v.values().collect();
                if got != values.iter().map(String::as_str).collect::<Vec<_>>() {
                    return Err(format!("values() = {got:?}, sent {values:?}"));
                }
                let g: Vec<(&str, [&str; 0])> = v.grouped_values().collect();
                if g.iter().map(|(x, _)| *x).collect::<Vec<_>>() != got {
                    return Err("grouped_values() of an ungrouped list differs from values()".to_string());
                }
                let owned: Vec<String> = v.clone().into_iter().collect();
                if &owned != values {
                    return Err(format!("into_iter() = {owned:?}"));
                }
                // both iterators are double-ended and exact-size: every adaptor and bulk consumer agrees
                crate::props::c19::adaptors_agree("List::values()", true, || v.values(), &got, |x| x)?;
                crate::props::c19::adaptors_agree("List::into_iter()", true, || v.clone().into_iter(), &owned, |x| x)?;
                crate::props::c19::exact_size_agree("List::values()", || v.values(), got.len())?;
                crate::props::c19::exact_size_agree("List::into_iter()", || v.clone().into_iter(), got.len())?;
                let raw = v.into_raw_values();
                if raw.len() != values.len() {
                    return Err("into_raw_values() length".to_string());
                }
                Ok(())
            });
        }
        Reply::ListGrouped1 { tags, groups } => {
            if groups.len() >= 2 {
                r.nontrivial();
            }
            let [(p, _), (g, gn), _] = distinct_tags(tags.0, tags.1, 0);
            // the caller may name a known tag through the catch-all variant: Tag::Other("Album") is
            // equal to Tag::Album and must behave the same
            let g = if (tags.0 as usize + tags.1 as usize) % 3 == 0 { Tag::Other(gn.clone().into_boxed_str()) } else { g };
            done!("list_grouped_1", c::List::new(p).group_by([g]).response(frame), |v: mpd_client::responses::List<1>| {
                let got: Vec<(String, [String; 1])> = v.grouped_values().map(|(x, g)| (x.to_string(), [g[0].to_string()])).collect();
                let want: Vec<(String, [String; 1])> =
                    groups.iter().flat_map(|(k, vals)| vals.iter().map(move |x| (x.clone(), [k.clone()]))).collect();
                if got != want {
                    return Err(format!("grouped_values() = {got:?}, sent {want:?}"));
                }
                if tag_name(&v.grouped_by()[0]) != gn {
                    return Err("grouped_by()".to_string());
                }
                Ok(())
            });
        }
        Reply::ListGrouped2 { tags, groups, inner_first } => {
            if groups.len() >= 2 || groups.iter().any(|(_, i)| i.len() >= 2) {
                r.nontrivial();
            }
            let [(p, _), (inner, inner_name), (outer, outer_name)] = distinct_tags(tags.0, tags.1, tags.2);
            let sel = (tags.0 as usize + tags.1 as usize + tags.2 as usize) % 4;
            let inner = if sel == 1 || sel == 3 { Tag::Other(inner_name.clone().into_boxed_str()) } else { inner };
            let outer = if sel == 2 || sel == 3 { Tag::Other(outer_name.clone().into_boxed_str()) } else { outer };
            let order = if *inner_first { [inner, outer] } else { [outer, inner] };
            done!("list_grouped_2", c::List::new(p).group_by(order).response(frame), |v: mpd_client::responses::List<2>| {
                let got: Vec<(String, [String; 2])> =
                    v.grouped_values().map(|(x, g)| (x.to_string(), [g[0].to_string(), g[1].to_string()])).collect();
                let mut want: Vec<(String, [String; 2])> = Vec::new();
                for (okey, inners) in groups {
                    for (ikey, vals) in inners {
                        for x in vals {
                            let pair = if *inner_first { [ikey.clone(), okey.clone()] } else { [okey.clone(), ikey.clone()] };
                            want.push((x.clone(), pair));
                        }
                    }
                }
                if got != want {
                    return Err(format!("grouped_values() = {got:?}, sent {want:?}"));
                }
                Ok(())
            });
        }
        Reply::Playlists(ps) => {
            done!("listplaylists", c::GetPlaylists.response(frame), |v: Vec<mpd_client::responses::Playlist>| {
                let got: Vec<(String, String)> = v.iter().map(|p| (p.name.clone(), p.last_modified.raw().to_string())).collect();
                if &got != ps {
                    return Err(format!("decoded {got:?}, sent {ps:?}"));
                }
                for (p, (_, raw)) in v.iter().zip(ps) {
                    crate::props::c14::chrono_agrees(&p.last_modified, raw).map_err(|e| format!("playlist {:?}: {e}", p.name))?;
                }
                // playlists are routinely sorted by date: every pair must compare without surprises
                for a in &v {
                    for b in &v {
                        let _ = (a.last_modified.cmp(&b.last_modified), a.last_modified == b.last_modified, a.last_modified.partial_cmp(&b.last_modified));
                    }
                }
                Ok(())
            });
        }
        Reply::StickerGet { name, value } => {
            if value.contains('=') {
                r.nontrivial();
            }
            let _ = name;
            done!("sticker_get", c::StickerGet::new("u", name).response(frame), |v: mpd_client::responses::StickerGet| {
                if &v.value != value {
                    return Err(format!("value {:?}, sent {value:?}", v.value));
                }
                Ok(())
            });
        }
        Reply::StickerList(items) => {
            if items.iter().any(|(_, v)| v.contains('=')) {
                r.nontrivial();
            }
            done!("sticker_list", c::StickerList::new("u").response(frame), |v: mpd_client::responses::StickerList| {
                let want: HashMap<String, String> = items.iter().cloned().collect();
                if v.value != want {
                    return Err(format!("decoded {:?}, sent {want:?}", v.value));
                }
                Ok(())
            });
        }
        Reply::StickerFind { name, files } => {
            if files.iter().any(|(_, v)| v.contains('=')) {
                r.nontrivial();
            }
            done!("sticker_find", c::StickerFind::new("", name).response(frame), |v: mpd_client::responses::StickerFind| {
                let want: HashMap<String, String> = files.iter().cloned().collect();
                if v.value != want {
                    return Err(format!("decoded {:?}, sent {want:?}", v.value));
                }
                Ok(())
            });
        }
        Reply::Channels(cs) => {
            done!("channels", c::ListChannels.response(frame), |v: Vec<String>| {
                if &v != cs {
                    return Err(format!("decoded {v:?}, sent {cs:?}"));
                }
                Ok(())
            });
        }
        Reply::Messages(msgs) => {
            if msgs.len() >= 2 {
                r.nontrivial();
            }
            done!("readmessages", c::ReadChannelMessages.response(frame), |v: Vec<(String, String)>| {
                if &v != msgs {
                    return Err(format!("decoded {v:?}, sent {msgs:?}"));
                }
                Ok(())
            });
        }
        Reply::TagTypes(ts) => {
            done!("tagtypes", c::GetEnabledTagTypes.response(frame), |v: Vec<Tag>| {
                let got: Vec<String> = v.iter().map(tag_name).collect();
                if &got != ts {
                    return Err(format!("decoded {got:?}, sent {ts:?}"));
                }
                Ok(())
            });
        }
        Reply::Update { job, rescan } => {
            let res = if *rescan { c::Rescan::new().response(frame) } else { c::Update::new().uri("x").response(frame) };
            done!("update", res, |v: u64| if v == *job { Ok(()) } else { Err(format!("job {v}, sent {job}")) });
        }
        Reply::ReplayGain(m) => {
            done!("replay_gain_status", c::ReplayGainStatus.response(frame), |v: mpd_client::responses::ReplayGainStatus| {
                let want = [ReplayGainMode::Off, ReplayGainMode::Track, ReplayGainMode::Album, ReplayGainMode::Auto][*m as usize % 4];
                if v.mode == want {
                    Ok(())
                } else {
                    Err(format!("mode {:?}, sent {want:?}", v.mode))
                }
            });
        }
        Reply::AddId(id) => {
            done!("addid", c::Add::uri("u").response(frame), |v: c::SongId| if v.0 == *id { Ok(()) } else { Err(format!("id {}, sent {id}", v.0)) });
        }
    }
    r
}

fn num() -> impl Strategy<Value = u64> {
    prop_oneof![3 => 0..1000u64, 1 => Just(0u64), 1 => Just(u64::MAX), 1 => any::<u64>(), 1 => any::<u32>().prop_map(u64::from)]
}

fn secs() -> impl Strategy<Value = u64> {
    prop_oneof![3 => 0..100_000u64, 1 => Just(0u64), 1 => 0..8_000_000_000u64]
}

fn millis() -> impl Strategy<Value = u64> {
    prop_oneof![3 => 0..10_000_000u64, 1 => Just(0u64), 1 => Just(999u64), 1 => (0..8_000_000_000u64).prop_map(|s| s * 1000 + 1)]
}

fn text() -> impl Strategy<Value = String> {
    prop_oneof![
        5 => "[A-Za-z0-9 ,.'&()/-]{1,16}",
        1 => Just(String::new()),
        1 => "[^\\n]{1,10}",
        1 => Just("OK".to_string()),
    ]
}

fn nonempty_text() -> impl Strategy<Value = String> {
    // names (stickers, channels) are arbitrary UTF-8 on the MPD side: multi-byte characters matter
    // wherever a decoder mixes byte offsets and character counts
    prop_oneof![
        3 => "[A-Za-z0-9_.-]{1,12}",
        1 => "[A-Za-z0-9_.\u{e4}\u{df}\u{3a9}\u{8a55}\u{4fa1}\u{1f3b5}-]{1,8}",
    ]
}

fn sticker_value() -> impl Strategy<Value = String> {
    prop_oneof![
        3 => "[a-z0-9 ]{0,10}",
        1 => "[a-z\u{e4}\u{3a9}\u{8a55}\u{1f3b5}=]{1,8}",
        3 => "[a-z0-9]{0,5}=[a-z0-9=]{0,6}",
        1 => Just("=".to_string()),
        1 => Just("a=b=c".to_string()),
        1 => Just("https://example.com/?id=42&t=7".to_string()),
    ]
}

fn status() -> impl Strategy<Value = AStatus> {
    (
        (prop::option::weighted(0.7, prop_oneof![Just(0u8), Just(100u8), Just(255u8), any::<u8>()]), 0..3u8, any::<bool>(), any::<bool>(), any::<bool>()),
        (prop::option::weighted(0.7, 0..3u8), prop::option::weighted(0.8, prop_oneof![Just(0u32), Just(u32::MAX), any::<u32>()]), prop::option::weighted(0.8, num())),
        (prop::option::weighted(0.6, (num(), num())), prop::option::weighted(0.5, (num(), num()))),
        (prop::option::weighted(0.6, millis()), prop::option::weighted(0.6, millis()), prop::option::weighted(0.5, num()), prop::option::weighted(0.5, secs())),
        (prop::option::weighted(0.3, num()), prop::option::weighted(0.3, text()), prop::option::weighted(0.5, nonempty_text())),
        any::<bool>(),
        (prop_oneof![1 => Just(0u64), 2 => any::<u64>()], prop_oneof![2 => Just(0u8), 1 => any::<u8>()]),
    )
        .prop_map(
            |((volume, state, repeat, random, consume), (single, playlist, playlistlength), (song, nextsong), (elapsed_ms, duration_ms, bitrate, xfade), (updating_db, error, partition), extras, (shuffle, dur_style))| AStatus {
                volume,
                state,
                repeat,
                random,
                consume,
                single,
                playlist,
                playlistlength: playlistlength.map(|v| v % (usize::MAX as u64)),
                song,
                nextsong,
                elapsed_ms,
                duration_ms,
                bitrate,
                xfade,
                updating_db,
                error,
                partition,
                extras,
                shuffle,
                dur_style,
            },
        )
}

fn unique_by_key(v: Vec<(String, String)>) -> Vec<(String, String)> {
    let mut seen = std::collections::HashSet::new();
    v.into_iter().filter(|(k, _)| seen.insert(k.clone())).collect()
}

fn group_key() -> impl Strategy<Value = String> {
    prop_oneof![4 => "[A-Za-z0-9 ]{1,8}", 2 => Just(String::new()), 1 => Just("X".to_string())]
}

fn reply() -> impl Strategy<Value = Reply> {
    let vals = || prop::collection::vec(text(), 0..5usize);
    prop_oneof![
        6 => status().prop_map(Reply::Status),
        2 => (num(), num(), num(), secs(), secs(), secs(), num(), prop_oneof![Just(0u64), any::<u64>()])
            .prop_map(|(artists, albums, songs, uptime, playtime, db_playtime, db_update, shuffle)| Reply::Stats { artists, albums, songs, uptime, playtime, db_playtime, db_update, shuffle }),
        1 => (num(), prop_oneof![secs().prop_map(|s| s * 1000), millis()], any::<bool>()).prop_map(|(songs, playtime_ms, playtime_first)| Reply::Count { songs, playtime_ms, playtime_first }),
        2 => (any::<u16>(), prop::collection::vec((group_key(), num(), secs(), any::<bool>()), 0..6usize)).prop_map(|(tag, groups)| Reply::CountGrouped { tag, groups }),
        1 => (any::<u16>(), prop::collection::vec(text(), 0..8usize)).prop_map(|(tag, values)| Reply::ListPlain { tag, values }),
        2 => ((any::<u16>(), any::<u16>()), prop::collection::vec((group_key(), vals()), 0..5usize)).prop_map(|(tags, groups)| Reply::ListGrouped1 { tags, groups }),
        3 => ((any::<u16>(), any::<u16>(), any::<u16>()), prop::collection::vec((group_key(), prop::collection::vec((group_key(), vals()), 0..4usize)), 0..4usize), any::<bool>())
            .prop_map(|(tags, groups, inner_first)| Reply::ListGrouped2 { tags, groups, inner_first }),
        1 => prop::collection::vec((nonempty_text(), timestamp()), 0..6usize).prop_map(Reply::Playlists),
        2 => (nonempty_text(), sticker_value()).prop_map(|(name, value)| Reply::StickerGet { name, value }),
        2 => prop::collection::vec((nonempty_text(), sticker_value()), 0..6usize).prop_map(|v| Reply::StickerList(unique_by_key(v))),
        2 => (nonempty_text(), prop::collection::vec(("[a-z0-9/]{1,10}\\.mp3", sticker_value()), 0..6usize)).prop_map(|(name, v)| Reply::StickerFind { name, files: unique_by_key(v) }),
        1 => prop::collection::vec(nonempty_text(), 0..6usize).prop_map(Reply::Channels),
        1 => prop::collection::vec((nonempty_text(), text()), 0..6usize).prop_map(Reply::Messages),
        1 => {
            let names: Vec<&'static str> = tag_table().iter().map(|(_, n)| *n).collect();
            prop::collection::vec(prop_oneof![4 => (0..names.len()).prop_map(move |i| names[i].to_string()), 1 => "[A-Z][a-z]{2,8}".prop_filter("canonical spelling", |s| crate::props::c14::canonical_or_unknown(s))], 0..10usize).prop_map(Reply::TagTypes)
        },
        1 => (num(), any::<bool>()).prop_map(|(job, rescan)| Reply::Update { job, rescan }),
        1 => (0..4u8).prop_map(Reply::ReplayGain),
        1 => num().prop_map(Reply::AddId),
    ]
}

pub fn property(_tier: Tier) -> Property {
    Property {
        id: "C16",
        level: "exploration",
        parts: vec![Box::new(RandomPart {
            name: "replies",
            rule: "proptest: abstract replies of status (every subset of optional fields, MPD's order or shuffled, all state/single spellings, boundary numbers, MPD's extra lines audio/mixrampdb/time), stats, count, grouped count (repeated/empty/changing keys, songs/playtime in either order), list plain and grouped by 1-2 tags (MPD's nesting, empty keys), listplaylists, sticker get/list/find (values containing '='), channels, readmessages, tagtypes, update/rescan, replay_gain_status, addid; with probability 1/3 one value with a domain is replaced by an unambiguous out-of-domain spelling and the decoder must return Err. Decoded values compared field by field. Sticker and channel names and sticker values include multi-byte characters. The reply is decoded on a connection with a history in half of the cases (1-1500 distinct field names received earlier, the reply's own field names received earlier with other values, or an earlier line of 70 KiB-4 MiB). non-trivial = status with both present and absent optional fields, >=2 groups, sticker value containing '=', >=2 messages, or an out-of-domain variant; distinct by serialised case; runs with and without chrono",
            cases: (100_000, 15_000_000),
            strategy: Box::new(|_t| {
                on_used_connection(
                    (reply(), prop::option::weighted(0.33, (any::<u16>(), any::<u8>()).prop_map(|(which, how)| Spoil { which, how })))
                        .prop_map(|(reply, spoil)| Case { reply, spoil }),
                )
            }),
            check: Box::new(|u: &OnUsedConnection<Case>| {
                if u.after_failed_conversions() {
                    crate::streamlab::fail_some_typed_conversions_first();
                }
                let mut r = with_history(&u.history, || check(&u.case));
                u.classify(&mut r);
                r
            }),
        })],
        assumptions: vec![
            "the reply encoder follows the protocol reference (status/stats field names incl. updating_db, 'key=value' stickers, list grouping nesting)",
            "out-of-domain spellings are chosen unambiguously (not e.g. '+5', which Rust's integer parser accepts)",
        ],
        selftest: None,
    }
}
