use crate::core::Property;

pub mod c06;
pub mod c07;
pub mod c20;

pub fn property(id: &str) -> Option<Property> {
    Some(match id {
        "C06" => c06::property(),
        "C07" => c07::property(),
        "C20" => c20::property(),
        _ => return None,
    })
}
