use crate::core::{Property, Tier};

pub mod simgen;
pub mod simprops;
pub mod c02;
pub mod c03;
pub mod c06;
pub mod c08;
pub mod c09;
pub mod c10;
pub mod c11;
pub mod c12;
pub mod c13;
pub mod c13_sim;
pub mod c14;
pub mod c15;
pub mod c16;
pub mod c17;
pub mod c18;
pub mod c19;
pub mod c07;
pub mod c20;
pub mod c20_events;

pub fn property(id: &str, tier: Tier) -> Option<Property> {
    Some(match id {
        "C01" => simprops::c01(tier),
        "C04" => simprops::c04(tier),
        "C05" => simprops::c05(tier),
        "C02" => c02::property(tier),
        "C03" => c03::property(tier),
        "C08" => c08::property(tier),
        "C09" => c09::property(tier),
        "C10" => c10::property(tier),
        "C17" => c17::property(tier),
        "C18" => c18::property(tier),
        "C19" => c19::property(tier),
        "C11" => c11::property(tier),
        "C13" => c13::property(tier),
        "C15" => c15::property(tier),
        "C12" => c12::property(tier),
        "C14" => c14::property(tier),
        "C16" => c16::property(tier),
        "C06" => c06::property(tier),
        "C07" => c07::property(tier),
        "C20" => c20::property(tier),
        _ => return None,
    })
}
