//! C12 — typed response conversion is total: never panics on any server reply.
//! Frames come from pushing generated wire bytes through the real parser; every decoder and every
//! public accessor of its result runs under catch_unwind.

use mpd_client::{
    commands::{self as c, Command as TypedCommand, CommandList as TypedList},
    filter::Filter,
    responses::{self as res, TypedResponseError},
    tag::Tag,
};
use mpd_protocol::response::Frame;
use proptest::prelude::*;
use serde::{Deserialize, Serialize};

use crate::{
    core::{catch, pick_idx, CaseResult, Property, RandomPart, Tier, B},
    props::c20::tag_table,
    streamlab::parse_all,
};

pub const FIELD_NAMES: &[&str] = &[
    "volume", "state", "repeat", "random", "consume", "single", "playlist", "playlistlength", "song", "songid",
    "nextsong", "nextsongid", "elapsed", "duration", "Time", "time", "bitrate", "xfade", "updating_db", "update_job",
    "error", "partition", "artists", "albums", "songs", "uptime", "playtime", "db_playtime", "db_update", "size", "type",
    "channel", "message", "file", "directory", "Last-Modified", "Range", "Format", "Prio", "Pos", "Id", "sticker",
    "tagtype", "replay_gain_mode", "changed", "audio", "mixrampdb", "Added",
];

pub const NUMERIC_EDGES: &[&str] = &[
    "0", "1", "-0", "-1", "255", "256", "65535", "65536", "4294967295", "4294967296", "9007199254740991", "9007199254740993",
    "18446744073709551615", "18446744073709551616", "18446744073709549568", "18446744073709551614.5", "1e19", "1.8446744073709552e19",
    "1.8446744073709551e19", "1e308", "1e309", "-1e309", "NaN", "nan", "inf", "-inf", "infinity", "+5", "1e-400", "0.0005", "123.456",
    "00012", "1_000", "0x10", " 5", "5 ", "", "1.", ".5", "1e", "340282366920938463463374607431768211456", "play", "pause", "stop",
    "oneshot", "off", "track", "album", "auto", "1:2", "12:34", ":", "1:", ":2", "a:b", "1:18446744073709551615", "1:1e19",
];

pub const RANGE_EDGES: &[&str] = &[
    "1.500-5.642", "1.5-", "-", "1--2", "a-b", "-5", "0-0", "1e19-", "18446744073709551615-", "0-18446744073709551616", "1-2-3", "",
    "NaN-NaN", "1.5", "inf-", "5-1",
];

pub const KV_EDGES: &[&str] = &["a=b", "=", "a=", "=b", "a=b=c", "novalue", "", "rating=5", "x= spaced ", "\u{e4}=\u{f6}"];

/// Strings whose Unicode case mapping changes their UTF-8 length (K KELVIN 3->1, I-dot 2->3, OHM 3->2,
/// ANGSTROM 3->2, capital sharp s 3->2, A-stroke 2->3), combined with the separators decoders split at.
pub const CASEMAP_EDGES: &[&str] = &[
    "image/\u{212A};x", "\u{212A};", "a\u{212A}\u{212A};q=1", "\u{130};", "\u{130}\u{130}=\u{130}", "\u{2126};charset=x", "\u{212B}/\u{212B}; a",
    "\u{1E9E}=\u{1E9E}", "\u{23A}\u{23A};\u{23A}", "x\u{212A}=y\u{212A}", "\u{212A}-\u{212A}", "\u{212A}:\u{130}", "IMAGE/PNG; Q=\u{212A}", "\u{fb01};\u{fb01}",
    "\u{df};\u{df}", "\u{1c4}\u{1c5}\u{1c6};", "i\u{307};", "\u{3a3}\u{3c2};", "\u{10400};\u{10428}",
];

pub const TIME_EDGES: &[&str] = &[
    "1900-02-29T00:00:00Z", "2100-02-29T12:30:00Z", "2000-02-29T23:59:59Z", "2023-02-29T00:00:00Z", "2024-02-29T00:00:00Z", "0000-02-29T00:00:00Z",
    "2023-04-31T00:00:00Z", "2023-00-10T00:00:00Z", "2023-13-01T00:00:00Z", "2023-01-00T00:00:00Z", "2023-01-32T00:00:00Z", "2023-12-31T24:00:00Z",
    "2023-12-31T23:60:00Z", "2023-12-31T23:59:61Z", "1700-02-29T01:02:03Z", "9999-02-29T00:00:00Z",
    "2020-06-12T17:53:00Z", "2016-12-31T23:59:60Z", "0000-01-01T00:00:00Z", "9999-12-31T23:59:59Z", "10000-01-01T00:00:00Z",
    "2020-06-12T17:53:00+02:00", "2020-06-12 17:53:00", "2020-13-40T25:61:61Z", "garbage", "", "2020-06-12T17:53:00.123456789Z",
    "-0001-01-01T00:00:00Z", "2020-02-30T00:00:00Z", "1970-01-01T00:00:00-00:00", "+262143-01-01T00:00:00Z",
    // the same second written in many ways (complete, shortened and missing zone designators)
    "2020-06-12T17:53:00+02", "2020-06-12T17:53:00+0200", "2020-06-12T17:53:00-1", "2020-06-12T17:53:00+", "2020-06-12T17:53:00", "2020-06-12T17:53:00z",
    "2020-06-12T17:53:00+02:0", "2020-06-12T17:53:00+99:99", "2020-06-12T17:53:00.5+02:00", "2020-06-12T17:53:00\u{e9}", "2020-06-12T17:53:00-00:00",
];

#[derive(Debug, Clone, Serialize, Deserialize)]
pub struct Case {
    /// frames of the reply (list form when != 1)
    pub frames: Vec<Vec<(String, String)>>,
    pub binary: Option<B>,
    pub sel: u16,
}

pub fn wire_of(case: &Case) -> Vec<u8> {
    let mut out = Vec::new();
    let list = case.frames.len() != 1;
    for (i, f) in case.frames.iter().enumerate() {
        for (k, v) in f {
            out.extend_from_slice(k.as_bytes());
            out.extend_from_slice(b": ");
            out.extend_from_slice(v.as_bytes());
            out.push(b'\n');
        }
        if i == 0 {
            if let Some(b) = &case.binary {
                out.extend_from_slice(format!("binary: {}\n", b.len()).as_bytes());
                out.extend_from_slice(b);
                out.push(b'\n');
            }
        }
        if list {
            out.extend_from_slice(b"list_OK\n");
        }
    }
    out.extend_from_slice(b"OK\n");
    out
}

/// What happened when a decoder ran: (returned Ok, returned an invalid-value error).
#[derive(Default, Clone, Copy)]
pub struct Reach {
    pub ok: bool,
    pub invalid_value: bool,
}

fn note<T: std::fmt::Debug>(reach: &mut Reach, r: &Result<T, TypedResponseError>) {
    match r {
        Ok(v) => {
            reach.ok = true;
            // reading a decoded value includes printing it: both Debug forms must not panic
            let _ = format!("{v:?}");
            let _ = format!("{v:#?}");
        }
        Err(e) => {
            let s = e.to_string();
            let _ = format!("{e:?}");
            let _ = format!("{e:#?}");
            let _ = std::error::Error::source(e);
            if s.starts_with("invalid value") {
                reach.invalid_value = true;
            }
        }
    }
}

fn touch_song(s: &res::Song) {
    let _ = s.number();
    let _ = s.artists().len();
    let _ = s.album_artists().len();
    let _ = s.album();
    let _ = s.title();
    let _ = s.file_path();
    if let Some(ts) = &s.last_modified {
        let _ = ts.raw().len();
        #[cfg(feature = "chrono")]
        {
            let _ = ts.chrono_datetime();
            let _ = ts == &ts.chrono_datetime();
            let _ = ts.partial_cmp(&ts.chrono_datetime());
        }
        let _ = ts == ts;
        let _ = ts.cmp(ts);
    }
    let _ = format!("{s:?}");
}

/// Timestamps are compared with each other (sorting a listing by date): every pair, every operator.
fn touch_timestamps(all: &[&res::Timestamp]) {
    for a in all {
        for b in all {
            let _ = (a.cmp(b), a.partial_cmp(b), a == b, a < b, a >= b);
        }
    }
    let mut sorted: Vec<&res::Timestamp> = all.to_vec();
    sorted.sort();
    sorted.dedup();
    let _ = sorted.iter().max();
}

fn touch_list<const N: usize>(l: res::List<N>) {
    let n = l.grouped_values().count();
    let _ = l.grouped_values().take(n + 1).map(|(v, g)| v.len() + g.len()).sum::<usize>();
    let _ = l.grouped_by();
    let _ = format!("{l:?}");
    let _ = l.clone() == l;
    let _ = l.into_raw_values();
}

fn touch_list0(l: res::List<0>) {
    let it = l.values();
    let _ = it.len();
    let _ = it.size_hint();
    let _ = l.values().count();
    let _ = l.values().last();
    let _ = l.values().nth(1);
    let _ = l.values().nth_back(1);
    let _ = l.values().next_back();
    let _ = l.values().rev().count();
    let _ = (&l).into_iter().count();
    let owned = l.clone().into_iter();
    let _ = owned.len();
    let _ = l.clone().into_iter().last();
    let _ = l.clone().into_iter().nth(2);
    let _ = l.clone().into_iter().nth_back(0);
    let _ = l.clone().into_iter().rev().count();
    // every adaptor and bulk consumer of both (double-ended, exact-size) iterators; only panics matter here
    let items: Vec<&str> = l.values().collect();
    let _ = crate::props::c19::adaptors_agree("values()", true, || l.values(), &items, |x| x);
    let _ = crate::props::c19::exact_size_agree("values()", || l.values(), items.len());
    let owned: Vec<String> = l.clone().into_iter().collect();
    let _ = crate::props::c19::adaptors_agree("into_iter()", true, || l.clone().into_iter(), &owned, |x| x);
    let _ = crate::props::c19::exact_size_agree("into_iter()", || l.clone().into_iter(), owned.len());
    touch_list(l);
}

pub const DECODERS: usize = 34;

/// Run decoder `i` on `frame`, touching every public accessor of the result.
pub fn decode(i: usize, frame: Frame, sel: u16, reach: &mut Reach) {
    let table = tag_table();
    let tag = |k: u16| table[pick_idx(sel.wrapping_mul(31).wrapping_add(k.wrapping_mul(7919)), table.len())].0.clone();
    let filter = || Filter::tag(Tag::Artist, "x");
    match i {
        0 => {
            let r = c::Status.response(frame);
            note(reach, &r);
            let _ = format!("{r:?}");
        }
        1 => {
            let r = c::Stats.response(frame);
            note(reach, &r);
            let _ = format!("{r:?}");
        }
        2 => {
            let r = c::ReplayGainStatus.response(frame);
            note(reach, &r);
        }
        3 => {
            let r = c::Queue.response(frame);
            note(reach, &r);
            if let Ok(v) = r {
                v.iter().for_each(|s| touch_song(&s.song));
                touch_timestamps(&v.iter().filter_map(|s| s.song.last_modified.as_ref()).collect::<Vec<_>>());
                let _ = format!("{v:?}");
            }
        }
        4 => {
            let r = c::Queue::range(..).response(frame);
            note(reach, &r);
        }
        5 => {
            let r = c::CurrentSong.response(frame);
            note(reach, &r);
            if let Ok(Some(s)) = r {
                touch_song(&s.song);
            }
        }
        6 => {
            let r = c::GetPlaylists.response(frame);
            note(reach, &r);
            if let Ok(v) = r {
                for p in &v {
                    let _ = p.last_modified.raw();
                    #[cfg(feature = "chrono")]
                    let _ = p.last_modified.chrono_datetime();
                }
                touch_timestamps(&v.iter().map(|p| &p.last_modified).collect::<Vec<_>>());
                let _ = format!("{v:?}");
            }
        }
        7 => {
            let r = c::GetEnabledTagTypes.response(frame);
            note(reach, &r);
        }
        8 => {
            let r = c::GetPlaylist("p").response(frame);
            note(reach, &r);
            if let Ok(v) = r {
                v.iter().for_each(touch_song);
            }
        }
        9 => {
            let r = c::Add::uri("u").response(frame);
            note(reach, &r);
        }
        10 => {
            let r = c::Find::new(filter()).response(frame);
            note(reach, &r);
            if let Ok(v) = r {
                v.iter().for_each(touch_song);
            }
        }
        11 => {
            let r = c::List::new(tag(0)).response(frame);
            note(reach, &r);
            if let Ok(l) = r {
                touch_list0(l);
            }
        }
        12 => {
            let r = c::List::new(tag(0)).group_by([tag(1)]).response(frame);
            note(reach, &r);
            if let Ok(l) = r {
                touch_list(l);
            }
        }
        13 => {
            let r = c::List::new(tag(0)).group_by([tag(1), tag(2)]).response(frame);
            note(reach, &r);
            if let Ok(l) = r {
                touch_list(l);
            }
        }
        14 => {
            // the tags the generator likes to emit: Album / Artist / Title
            let r = c::List::new(Tag::Title).group_by([Tag::Album, Tag::Artist]).response(frame);
            note(reach, &r);
            if let Ok(l) = r {
                touch_list(l);
            }
        }
        15 => {
            let r = c::Count::new(filter()).response(frame);
            note(reach, &r);
        }
        16 => {
            let r = c::CountGrouped::new(tag(0)).response(frame);
            note(reach, &r);
        }
        17 => {
            let r = c::CountGrouped::new(Tag::Album).response(frame);
            note(reach, &r);
        }
        18 => {
            let r = c::ListAllIn::root().response(frame);
            note(reach, &r);
            if let Ok(v) = r {
                v.iter().for_each(touch_song);
            }
        }
        19 => {
            let r = c::AlbumArt::new("u").response(frame);
            note(reach, &r);
            let _ = format!("{r:?}");
        }
        20 => {
            let r = c::AlbumArtEmbedded::new("u").response(frame);
            note(reach, &r);
        }
        21 => {
            let r = c::StickerGet::new("u", "n").response(frame);
            note(reach, &r);
            if let Ok(s) = r {
                let _: String = s.into();
            }
        }
        22 => {
            let r = c::StickerList::new("u").response(frame);
            note(reach, &r);
            if let Ok(s) = r {
                let _: std::collections::HashMap<String, String> = s.into();
            }
        }
        23 => {
            let r = c::StickerFind::new("u", "n").response(frame);
            note(reach, &r);
        }
        24 => {
            let r = c::Update::new().response(frame);
            note(reach, &r);
        }
        25 => {
            let r = c::Rescan::new().response(frame);
            note(reach, &r);
        }
        26 => {
            let r = c::ReadChannelMessages.response(frame);
            note(reach, &r);
        }
        27 => {
            let r = c::ListChannels.response(frame);
            note(reach, &r);
        }
        28 => {
            let r = c::Queue::song(c::SongId(1)).response(frame);
            note(reach, &r);
        }
        // list decoders whose tags are derived from the reply itself: a field name of the frame in
        // its own / flipped / lower / upper letter case, as parsed tag and as hand-built catch-all
        29..=32 => {
            let keys: Vec<String> = frame.fields().map(|(k, _)| k.to_string()).collect();
            if keys.is_empty() {
                return;
            }
            let pick = |n: usize| keys[(sel as usize + n * 7) % keys.len()].clone();
            let recase = |s: String, how: usize| -> String {
                match how % 4 {
                    0 => s,
                    1 => s.to_lowercase(),
                    2 => s.to_uppercase(),
                    _ => s.chars().map(|c| if c.is_ascii_uppercase() { c.to_ascii_lowercase() } else { c.to_ascii_uppercase() }).collect(),
                }
            };
            let mk = |name: String, other: bool| -> Tag {
                if other {
                    Tag::Other(name.into_boxed_str())
                } else {
                    Tag::try_from(name.as_str()).unwrap_or(Tag::Other(name.into_boxed_str()))
                }
            };
            let how = (sel as usize) >> 3;
            let primary = mk(recase(pick(0), how), i % 2 == 0);
            let g1 = mk(recase(pick(1), how >> 2), i % 2 == 1);
            let g2 = mk(recase(pick(2), how >> 4), (sel >> 9) & 1 == 1);
            if i <= 30 {
                let r = c::List::new(primary).group_by([g1]).response(frame);
                note(reach, &r);
                if let Ok(l) = r {
                    touch_list(l);
                }
            } else {
                let r = c::List::new(primary.clone()).group_by([g1.clone(), g2]).response(frame.clone());
                note(reach, &r);
                if let Ok(l) = r {
                    touch_list(l);
                }
                let r = c::CountGrouped::new(g1).response(frame.clone());
                note(reach, &r);
                let r = c::List::new(primary).response(frame);
                note(reach, &r);
                if let Ok(l) = r {
                    touch_list0(l);
                }
            }
        }
        _ => {
            // commands with a unit response accept anything
            let _ = c::Ping.response(frame.clone());
            let _ = c::SetVolume(1).response(frame.clone());
            let _ = c::StickerSet::new("a", "b", "c").response(frame.clone());
            let _ = c::TagTypes::enable_all().response(frame);
        }
    }
}

/// Typed lists over a frame vector of any length (count mismatches in both directions).
pub fn decode_lists(frames: &[Frame], sel: u16, reach: &mut Reach) {
    let fr = || frames.to_vec();
    let _ = sel;
    macro_rules! run {
        ($l:expr) => {{
            let r = $l.responses(fr());
            note(reach, &r);
        }};
    }
    // every arity against every frame count the generator produces (0-9)
    run!((c::Status,));
    run!((c::Status, c::Stats));
    run!((c::Stats, c::Status, c::CurrentSong));
    run!((c::Ping, c::Status, c::Queue, c::Stats));
    run!((c::Status, c::Stats, c::CurrentSong, c::GetPlaylists, c::ListChannels));
    run!((c::Status, c::Stats, c::CurrentSong, c::GetPlaylists, c::ListChannels, c::Ping));
    run!((c::Ping, c::Ping, c::Ping, c::Ping, c::Ping, c::Ping, c::Status));
    run!((c::Ping, c::Status, c::Ping, c::Stats, c::Ping, c::CurrentSong, c::Ping, c::Queue));
    run!((c::Ping, c::Ping));
    run!((c::Ping, c::Ping, c::Ping));
    run!((c::Ping, c::Ping, c::Ping, c::Ping));
    run!((c::Ping, c::Ping, c::Ping, c::Ping, c::Ping));
    run!((c::Ping, c::Ping, c::Ping, c::Ping, c::Ping, c::Ping));
    run!((c::Ping, c::Ping, c::Ping, c::Ping, c::Ping, c::Ping, c::Ping));
    run!((c::Ping, c::Ping, c::Ping, c::Ping, c::Ping, c::Ping, c::Ping, c::Ping));
    for n in [0usize, 1, frames.len().saturating_sub(1), frames.len(), frames.len() + 1, 8] {
        let r = vec![c::Status; n].responses(fr());
        note(reach, &r);
        let r = vec![c::Ping; n].responses(fr());
        note(reach, &r);
        let r = (0..n).map(|_| c::CurrentSong).collect::<Vec<_>>().responses(fr());
        note(reach, &r);
    }
}

pub fn check(case: &Case) -> CaseResult {
    let mut r = CaseResult::new();
    let wire = wire_of(case);
    let resps = match parse_all(&wire) {
        Ok(v) => v,
        Err(_) => {
            // a field name outside the alphabet the protocol layer accepts today: no frame reaches
            // the typed layer
            r.class("rejected_by_protocol_layer");
            return r;
        }
    };
    let frames: Vec<Frame> = match resps.into_iter().next() {
        Some(resp) => resp.into_iter().filter_map(Result::ok).collect(),
        None => Vec::new(),
    };
    r.class(match frames.len() {
        0 => "no_frames",
        1 => "one_frame",
        _ => "several_frames",
    });
    let mut reach = Reach::default();
    let mut execs = 0u64;
    for (fi, f) in frames.iter().enumerate() {
        for d in 0..DECODERS {
            execs += 1;
            if let Err(p) = catch(|| decode(d, f.clone(), case.sel, &mut reach)) {
                r.fail(format!("decoder {d} panicked on frame {fi}: {p}"));
                r.execs = execs;
                return r;
            }
        }
    }
    execs += 1;
    if let Err(p) = catch(|| decode_lists(&frames, case.sel, &mut reach)) {
        r.fail(format!("typed command list over {} frames panicked: {p}", frames.len()));
    }
    r.execs = execs;
    r.class_if(reach.ok, "some_decoder_ok");
    r.class_if(reach.invalid_value, "some_invalid_value_error");
    if reach.ok || reach.invalid_value {
        r.nontrivial();
    }
    r
}

fn tag_name_cased() -> impl Strategy<Value = String> {
    let names: Vec<&'static str> = tag_table().iter().map(|(_, n)| *n).collect();
    (0..names.len(), 0..4u8).prop_map(move |(i, how)| match how {
        0 | 1 => names[i].to_string(),
        2 => names[i].to_lowercase(),
        _ => names[i].to_uppercase(),
    })
}

pub fn field_name() -> impl Strategy<Value = String> {
    prop_oneof![
        10 => (0..FIELD_NAMES.len()).prop_map(|i| FIELD_NAMES[i].to_string()),
        5 => tag_name_cased(),
        2 => prop_oneof![Just("Album"), Just("Artist"), Just("Title"), Just("file"), Just("playlist"), Just("directory")].prop_map(str::to_string),
        1 => "[A-Za-z_-]{1,10}",
    ]
}

/// names outside today's key alphabet (rejected by the parser; they matter if it is ever widened)
fn odd_field_name() -> impl Strategy<Value = String> {
    prop_oneof![
        Just("Track2".to_string()),
        Just("MUSICBRAINZ_ALBUMID2".to_string()),
        Just("x.y".to_string()),
        Just("sort key".to_string()),
        Just("Titl\u{e9}".to_string()),
        Just("Voc\u{ea}".to_string()),
        Just("\u{b5}".to_string()),
        Just("\u{f5}\u{fa}".to_string()),
        "[A-Za-z]{1,5}[0-9]{1,3}",
        "[a-z]{1,4}[.:/+][a-z]{1,4}",
    ]
}

pub fn field_value() -> impl Strategy<Value = String> {
    prop_oneof![
        8 => (0..NUMERIC_EDGES.len()).prop_map(|i| NUMERIC_EDGES[i].to_string()),
        2 => (0..RANGE_EDGES.len()).prop_map(|i| RANGE_EDGES[i].to_string()),
        2 => (0..KV_EDGES.len()).prop_map(|i| KV_EDGES[i].to_string()),
        2 => (0..TIME_EDGES.len()).prop_map(|i| TIME_EDGES[i].to_string()),
        2 => (0..CASEMAP_EDGES.len()).prop_map(|i| CASEMAP_EDGES[i].to_string()),
        // timestamps of the canonical shape with every calendar edge
        2 => (
            prop_oneof![Just(1600u32), Just(1700), Just(1900), Just(2000), Just(2100), Just(2023), Just(2024), Just(0), Just(9999), 0..10_000u32],
            0..14u32,
            prop_oneof![3 => 28..33u32, 1 => 0..33u32],
            0..25u32,
            prop_oneof![Just(0u32), Just(59), Just(60)],
            prop_oneof![Just(0u32), Just(59), Just(60), Just(61)],
        )
            .prop_map(|(y, mo, d, h, mi, s)| format!("{y:04}-{mo:02}-{d:02}T{h:02}:{mi:02}:{s:02}Z")),
        3 => "[0-9]{1,4}",
        1 => "[0-9]{1,3}\\.[0-9]{1,3}",
        2 => "[a-zA-Z0-9 ./=-]{0,16}",
        1 => "[^\\n]{0,12}",
        1 => "[^\\n]{200,400}",
        1 => any::<u64>().prop_map(|v| v.to_string()),
        1 => any::<f64>().prop_map(|v| format!("{v}")),
        1 => any::<f64>().prop_map(|v| format!("{v:e}")),
    ]
}

/// a run of lines shaped like a reply some decoder expects
fn shaped_block() -> impl Strategy<Value = Vec<(String, String)>> {
    let v = || field_value();
    prop_oneof![
        // song entry
        (v(), prop::collection::vec((prop_oneof![Just("duration"), Just("Time"), Just("Range"), Just("Pos"), Just("Id"), Just("Prio"), Just("Format"), Just("Last-Modified"), Just("Artist"), Just("Title"), Just("Album")], v()), 0..8usize))
            .prop_map(|(f, rest)| {
                let mut out = vec![("file".to_string(), if f.is_empty() { "a.flac".to_string() } else { f })];
                out.extend(rest.into_iter().map(|(k, v)| (k.to_string(), v)));
                out
            }),
        // status-like
        (v(), v(), v(), v(), prop::collection::vec((field_name(), v()), 0..8usize)).prop_map(|(a, b, c, d, rest)| {
            let mut out = vec![
                ("state".to_string(), "play".to_string()),
                ("repeat".to_string(), "0".to_string()),
                ("random".to_string(), "1".to_string()),
                ("consume".to_string(), "0".to_string()),
                ("volume".to_string(), a),
                ("duration".to_string(), b),
                ("elapsed".to_string(), c),
                ("xfade".to_string(), d),
            ];
            out.extend(rest);
            out
        }),
        // stats-like
        (v(), v(), v()).prop_map(|(a, b, c)| vec![
            ("artists".to_string(), "1".to_string()),
            ("albums".to_string(), "2".to_string()),
            ("songs".to_string(), "3".to_string()),
            ("uptime".to_string(), a),
            ("playtime".to_string(), b),
            ("db_playtime".to_string(), c),
            ("db_update".to_string(), "1".to_string()),
        ]),
        // grouped list / count
        prop::collection::vec((prop_oneof![Just("Album"), Just("Artist"), Just("Title"), Just("songs"), Just("playtime"), Just("Genre")], v()), 1..10usize)
            .prop_map(|x| x.into_iter().map(|(k, v)| (k.to_string(), v)).collect()),
        // picture chunk (the frame also gets a binary part with probability 0.2, see `strategy`)
        (v(), v()).prop_map(|(size, ty)| vec![("size".to_string(), if size.is_empty() { "3".to_string() } else { size }), ("type".to_string(), ty)]),
        (v()).prop_map(|ty| vec![("size".to_string(), "3".to_string()), ("type".to_string(), ty)]),
        // dated entries: 2-6 songs or playlists whose Last-Modified values come from the time edges (the same
        // second written in many ways among them), everything else well-formed - so that the decoded
        // timestamps exist and get compared with each other
        (any::<bool>(), prop::collection::vec(prop_oneof![3 => (0..TIME_EDGES.len()).prop_map(|i| TIME_EDGES[i].to_string()), 1 => v()], 2..7usize)).prop_map(|(songs, stamps)| {
            let mut out = Vec::new();
            for (i, t) in stamps.into_iter().enumerate() {
                if songs {
                    out.push(("file".to_string(), format!("dir/{i}.flac")));
                    out.push(("Last-Modified".to_string(), t));
                    out.push(("Title".to_string(), format!("t{i}")));
                    out.push(("Pos".to_string(), i.to_string()));
                    out.push(("Id".to_string(), (i + 10).to_string()));
                } else {
                    out.push(("playlist".to_string(), format!("list {i}")));
                    out.push(("Last-Modified".to_string(), t));
                }
            }
            out
        }),
        // stickers / channels / playlists
        prop::collection::vec((prop_oneof![Just("sticker"), Just("file"), Just("channel"), Just("message"), Just("playlist"), Just("Last-Modified"), Just("tagtype"), Just("size"), Just("type"), Just("Id"), Just("updating_db")], v()), 1..8usize)
            .prop_map(|x| x.into_iter().map(|(k, v)| (k.to_string(), v)).collect()),
    ]
}

fn frame_fields() -> impl Strategy<Value = Vec<(String, String)>> {
    prop_oneof![
        18 => prop::collection::vec((field_name(), field_value()), 0..20usize),
        6 => prop::collection::vec((field_name(), field_value()), 20..60usize),
        1 => prop::collection::vec(shaped_block(), 30..200usize).prop_map(|b| b.concat()),
        30 => prop::collection::vec(shaped_block(), 1..4usize).prop_map(|b| b.concat()),
        6 => (prop::collection::vec((field_name(), field_value()), 0..6usize), odd_field_name(), field_value(), any::<u16>()).prop_map(|(mut v, k, val, at)| {
            let i = pick_idx(at, v.len() + 1);
            v.insert(i, (k, val));
            // make the odd name reachable for the song and list decoders
            v.insert(0, ("file".to_string(), "a.flac".to_string()));
            v
        }),
    ]
}

pub fn strategy_for_corpus() -> BoxedStrategy<Case> {
    strategy(Tier::Quick)
}

fn strategy(_tier: Tier) -> BoxedStrategy<Case> {
    (
        prop_oneof![
            8 => frame_fields().prop_map(|f| vec![f]),
            1 => Just(Vec::new()),
            3 => prop::collection::vec(frame_fields(), 2..=9usize),
        ],
        prop::option::weighted(0.35, prop::collection::vec(any::<u8>(), 0..20usize).prop_map(B)),
        any::<u16>(),
    )
        .prop_map(|(frames, binary, sel)| {
            let frames = frames
                .into_iter()
                .map(|f| {
                    f.into_iter()
                        .map(|(k, v)| {
                            let v = if k == "binary" { format!("x{v}") } else { v };
                            (k, v.replace('\n', " "))
                        })
                        .collect()
                })
                .collect();
            Case { frames, binary, sel }
        })
        .boxed()
}

pub fn property(_tier: Tier) -> Property {
    Property {
        id: "C12",
        level: "exploration",
        parts: vec![Box::new(RandomPart {
            name: "totality",
            rule: "proptest: reply of 0-9 frames (list form when != 1), 0-60 fields per frame drawn from every field name any decoder reads, the 31 tag names in several letter cases, random valid names and (1 case in 10) names outside today's key alphabet; values from dictionaries of numeric/float edges (2^32, 2^53, 2^64 +-1, 1e19, 1e309, NaN, inf, +5 ...), range, key=value and timestamp edges, random text; optional binary. Every frame goes through 34 decoders (every predefined command with a non-unit response, List<0|1|2> with expected and unexpected tags and with tags derived from the reply's own field names in own/lower/upper/flipped case, parsed and as hand-built catch-all) and all accessors/iterators of the results; the frame vector goes through tuples of EVERY arity 1-8 and Vecs of length {0,1,n-1,n,n+1,8}. Oracle: catch_unwind. non-trivial = some decoder returned Ok or an invalid-value error; 'executions' counts decoder runs; the check script runs this with and without the chrono feature",
            cases: (40_000, 1_200_000),
            strategy: Box::new(|t| crate::streamlab::on_used_connection(strategy(t))),
            check: Box::new(|u: &crate::streamlab::OnUsedConnection<Case>| {
                let mut r = crate::streamlab::with_history(&u.history, || check(&u.case));
                u.classify(&mut r);
                r
            }),
        }), crate::fuzzops::corpus_part("fuzz_corpus", "fz_typed", "C12", crate::fuzzops::typed_target)],
        assumptions: vec!["frames are exactly those the real protocol layer produces for the generated bytes"],
        selftest: None,
    }
}
