//! C20 — tags and subsystems compare, hash and parse by protocol name.
//! Independent name tables + Eq/Ord/Hash coherence laws; exhaustive over the pair space.

use std::{
    cmp::Ordering,
    collections::{hash_map::DefaultHasher, BTreeMap, HashMap, HashSet},
    hash::{Hash, Hasher},
};

use bytes::BytesMut;
use mpd_client::{client::Subsystem, tag::Tag};
use mpd_protocol::command::Argument;
use proptest::prelude::*;
use serde::{Deserialize, Serialize};

use crate::core::{pick_idx, CaseResult, ExhaustivePart, Property, RandomPart, Tier};

/// Written from MPD's tag table (src/tag/Names.cxx) and the MusicBrainz Picard mapping the
/// crate's documentation refers to; *not* copied from tag.rs.
pub fn tag_table() -> Vec<(Tag, &'static str)> {
    vec![
        (Tag::Album, "Album"),
        (Tag::AlbumArtist, "AlbumArtist"),
        (Tag::AlbumArtistSort, "AlbumArtistSort"),
        (Tag::AlbumSort, "AlbumSort"),
        (Tag::Artist, "Artist"),
        (Tag::ArtistSort, "ArtistSort"),
        (Tag::Comment, "Comment"),
        (Tag::Composer, "Composer"),
        (Tag::ComposerSort, "ComposerSort"),
        (Tag::Conductor, "Conductor"),
        (Tag::Date, "Date"),
        (Tag::Disc, "Disc"),
        (Tag::Ensemble, "Ensemble"),
        (Tag::Genre, "Genre"),
        (Tag::Grouping, "Grouping"),
        (Tag::Label, "Label"),
        (Tag::Location, "Location"),
        (Tag::Movement, "Movement"),
        (Tag::MovementNumber, "MovementNumber"),
        (Tag::MusicBrainzArtistId, "MUSICBRAINZ_ARTISTID"),
        // Picard: "MusicBrainz Recording Id" is stored as MUSICBRAINZ_TRACKID
        (Tag::MusicBrainzRecordingId, "MUSICBRAINZ_TRACKID"),
        (Tag::MusicBrainzReleaseArtistId, "MUSICBRAINZ_ALBUMARTISTID"),
        (Tag::MusicBrainzReleaseId, "MUSICBRAINZ_ALBUMID"),
        // Picard: "MusicBrainz Track Id" (release track) is MUSICBRAINZ_RELEASETRACKID
        (Tag::MusicBrainzTrackId, "MUSICBRAINZ_RELEASETRACKID"),
        (Tag::MusicBrainzWorkId, "MUSICBRAINZ_WORKID"),
        (Tag::Name, "Name"),
        (Tag::OriginalDate, "OriginalDate"),
        (Tag::Performer, "Performer"),
        (Tag::Title, "Title"),
        (Tag::Track, "Track"),
        (Tag::Work, "Work"),
    ]
}

/// From the protocol reference, command `idle`.
pub fn subsystem_table() -> Vec<(Subsystem, &'static str)> {
    vec![
        (Subsystem::Database, "database"),
        (Subsystem::Update, "update"),
        (Subsystem::StoredPlaylist, "stored_playlist"),
        (Subsystem::Queue, "playlist"),
        (Subsystem::Player, "player"),
        (Subsystem::Mixer, "mixer"),
        (Subsystem::Output, "output"),
        (Subsystem::Options, "options"),
        (Subsystem::Partition, "partition"),
        (Subsystem::Sticker, "sticker"),
        (Subsystem::Subscription, "subscription"),
        (Subsystem::Message, "message"),
        (Subsystem::Neighbor, "neighbor"),
        (Subsystem::Mount, "mount"),
    ]
}

pub fn tag_name(t: &Tag) -> String {
    let mut b = BytesMut::new();
    t.render(&mut b);
    String::from_utf8(b.to_vec()).expect("tag names are UTF-8")
}

fn h<T: Hash>(t: &T) -> u64 {
    let mut s = DefaultHasher::new();
    t.hash(&mut s);
    s.finish()
}

fn alternating(s: &str) -> String {
    s.chars()
        .enumerate()
        .map(|(i, c)| if i % 2 == 0 { c.to_ascii_lowercase() } else { c.to_ascii_uppercase() })
        .collect()
}

/// (value, name the value must carry)
fn tag_values() -> Vec<(Tag, String)> {
    let table = tag_table();
    let mut out: Vec<(Tag, String)> = Vec::new();
    for (i, (t, n)) in table.iter().enumerate() {
        out.push((t.clone(), n.to_string()));
        let other_name = table[(i + 7) % table.len()].1;
        for s in [n.to_string(), n.to_lowercase(), n.to_uppercase(), alternating(n), other_name.to_string()] {
            out.push((Tag::Other(s.clone().into_boxed_str()), s.clone()));
            // parsing any spelling of a known name gives the named variant, whose name is canonical
            let parsed = Tag::try_from(s.as_str()).expect("valid tag string");
            let canon = table
                .iter()
                .find(|(_, c)| c.eq_ignore_ascii_case(&s))
                .map(|(_, c)| c.to_string())
                .unwrap();
            out.push((parsed, canon));
        }
    }
    for s in ["any", "foo", "Foo", "file", "x-y_z", "ALBUM-", "albumartis"] {
        out.push((Tag::Other(s.into()), s.to_string()));
        out.push((Tag::try_from(s).unwrap(), s.to_string()));
    }
    out.push((Tag::any(), "any".to_string()));
    out
}

#[derive(Debug, Clone, Serialize, Deserialize)]
pub struct Pair {
    pub a: usize,
    pub b: usize,
}

fn check_tag_pair(values: &[(Tag, String)], p: &Pair) -> CaseResult {
    let mut r = CaseResult::new();
    let (a, an) = &values[p.a];
    let (b, bn) = &values[p.b];
    let (ra, rb) = (tag_name(a), tag_name(b));
    if &ra != an || &rb != bn {
        r.fail(format!("{a:?} renders as {ra:?}, table says {an:?} (or {b:?}: {rb:?} vs {bn:?})"));
        return r;
    }
    let same = an == bn;
    r.class_if(same, "same_name");
    r.class_if(!same && an.eq_ignore_ascii_case(bn), "differ_only_in_case");
    let mixed = matches!(a, Tag::Other(_)) != matches!(b, Tag::Other(_));
    r.class_if(mixed, "named_vs_catch_all");
    if same && mixed || (!same && an.eq_ignore_ascii_case(bn)) {
        r.nontrivial();
    }
    if p.a != p.b {
        r.nontrivial();
    }
    if (a == b) != same {
        r.fail(format!("{a:?} == {b:?} is {}, names {an:?} / {bn:?}", a == b));
    }
    if (a != b) == same {
        r.fail(format!("{a:?} != {b:?} inconsistent with =="));
    }
    if same && h(a) != h(b) {
        r.fail(format!("{a:?} and {b:?} are equal but hash differently"));
    }
    let want = an.as_bytes().cmp(bn.as_bytes());
    if a.cmp(b) != want || a.partial_cmp(b) != Some(want) {
        r.fail(format!("cmp({a:?}, {b:?}) = {:?}, names order {want:?}", a.cmp(b)));
    }
    if (a.cmp(b) == Ordering::Equal) != (a == b) {
        r.fail(format!("cmp and == disagree for {a:?}, {b:?}"));
    }
    if (*a == bn.as_str()) != same {
        r.fail(format!("{a:?} == {bn:?} (str) is {}", *a == bn.as_str()));
    }
    // interchangeable in maps and sets
    let mut hm = HashMap::new();
    hm.insert(a.clone(), 1);
    let mut bm = BTreeMap::new();
    bm.insert(a.clone(), 1);
    let mut hs = HashSet::new();
    hs.insert(a.clone());
    if hm.contains_key(b) != same || bm.contains_key(b) != same || hs.contains(b) != same {
        r.fail(format!("map/set lookup of {b:?} in a collection holding {a:?} is wrong (same name: {same})"));
    }
    r
}

fn check_subsystem_pair(values: &[(Subsystem, String)], p: &Pair) -> CaseResult {
    let mut r = CaseResult::new();
    let (a, an) = &values[p.a];
    let (b, bn) = &values[p.b];
    if a.as_str() != an || b.as_str() != bn {
        r.fail(format!("{a:?}.as_str() = {:?}, table says {an:?}", a.as_str()));
        return r;
    }
    let same = an == bn;
    r.class_if(same, "same_name");
    if p.a != p.b {
        r.nontrivial();
    }
    r.class_if(matches!(a, Subsystem::Other(_)) != matches!(b, Subsystem::Other(_)), "named_vs_catch_all");
    if (a == b) != same || (a != b) == same {
        r.fail(format!("{a:?} == {b:?} is {}, names {an:?} / {bn:?}", a == b));
    }
    if same && h(a) != h(b) {
        r.fail(format!("{a:?} and {b:?} are equal but hash differently"));
    }
    let mut hm = HashMap::new();
    hm.insert(a.clone(), 1);
    let mut hs = HashSet::new();
    hs.insert(a.clone());
    if hm.contains_key(b) != same || hs.contains(b) != same {
        r.fail(format!("map/set lookup of {b:?} in a collection holding {a:?} is wrong"));
    }
    r
}

fn subsystem_values() -> Vec<(Subsystem, String)> {
    let mut out = Vec::new();
    for (s, n) in subsystem_table() {
        out.push((s, n.to_string()));
        out.push((Subsystem::Other(n.into()), n.to_string()));
        out.push((Subsystem::Other(n.to_uppercase().into()), n.to_uppercase()));
    }
    for n in ["queue", "Player", "foo", "", "stored-playlist"] {
        out.push((Subsystem::Other(n.into()), n.to_string()));
    }
    out
}

#[derive(Debug, Clone, Serialize, Deserialize)]
pub struct StrCase {
    pub s: String,
}

fn check_try_from(c: &StrCase) -> CaseResult {
    let mut r = CaseResult::new();
    let s = c.s.as_str();
    let valid = !s.is_empty() && s.chars().all(|ch| ch.is_ascii_alphabetic() || ch == '_' || ch == '-');
    let res = Tag::try_from(s);
    if let Err(e) = &res {
        let _ = e.to_string();
    }
    r.class_if(valid, "valid");
    r.class_if(!valid, "invalid");
    r.class_if(s.is_empty(), "empty");
    if res.is_ok() != valid {
        r.fail(format!("Tag::try_from({s:?}) = {res:?}, expected {}", if valid { "Ok" } else { "Err" }));
        return r;
    }
    if !valid {
        if s.chars().filter(|ch| !(ch.is_ascii_alphabetic() || *ch == '_' || *ch == '-')).count() == 1 {
            r.nontrivial();
        }
        return r;
    }
    let t = res.unwrap();
    let name = tag_name(&t);
    let table = tag_table();
    match table.iter().find(|(_, n)| n.eq_ignore_ascii_case(s)) {
        Some((variant, canon)) => {
            r.class("known_name");
            r.nontrivial();
            if name != *canon || &t != variant || matches!(t, Tag::Other(_)) {
                r.fail(format!("try_from({s:?}) = {t:?} (name {name:?}), expected the named variant {canon}"));
            }
        }
        None => {
            r.class("unknown_name");
            if name != s {
                r.fail(format!("try_from({s:?}) carries the name {name:?}"));
            }
            if s.len() > 1 {
                r.nontrivial();
            }
        }
    }
    // parsing a tag's own protocol name gives back an equal tag
    match Tag::try_from(name.as_str()) {
        Ok(t2) if t2 == t && tag_name(&t2) == name => {}
        other => r.fail(format!("try_from(name({t:?}) = {name:?}) = {other:?}")),
    }
    r
}

fn tag_string() -> impl Strategy<Value = String> {
    let table = tag_table();
    let names: Vec<&'static str> = table.iter().map(|(_, n)| *n).collect();
    let names2 = names.clone();
    let names3 = names.clone();
    prop_oneof![
        3 => "[A-Za-z_-]{1,16}",
        3 => (0..names.len(), any::<u32>()).prop_map(move |(i, mask)| {
            names[i]
                .chars()
                .enumerate()
                .map(|(k, c)| if mask >> (k % 32) & 1 == 1 { c.to_ascii_uppercase() } else { c.to_ascii_lowercase() })
                .collect::<String>()
        }),
        2 => (0..names2.len(), 0..30usize, any::<char>()).prop_map(move |(i, pos, c)| {
            let mut s = names2[i].to_string();
            let pos = pos.min(s.len());
            s.insert(pos, c);
            s
        }),
        1 => Just(String::new()),
        // a known name with one letter replaced by a non-ASCII character that Unicode case mapping
        // turns into that letter (KELVIN SIGN -> k, LONG S -> S, dotless/dotted I, fullwidth forms)
        2 => (0..names3.len(), any::<u16>(), any::<u8>()).prop_map(move |(i, at, pick)| {
            let mut cs: Vec<char> = names3[i].chars().collect();
            let cands: Vec<usize> = (0..cs.len()).filter(|k| "kKsSiI".contains(cs[*k]) || cs[*k].is_ascii_alphabetic()).collect();
            let k = cands[pick_idx(at, cands.len())];
            cs[k] = match cs[k] {
                'k' | 'K' => '\u{212A}',
                's' | 'S' => '\u{17F}',
                'i' => ['\u{130}', '\u{131}'][pick as usize % 2],
                'I' => ['\u{131}', '\u{130}'][pick as usize % 2],
                c => char::from_u32(0xFF21 + (c.to_ascii_uppercase() as u32 - 'A' as u32) + if c.is_ascii_lowercase() { 0x20 } else { 0 }).unwrap(),
            };
            cs.into_iter().collect::<String>()
        }),
        2 => "[A-Za-z_-]{0,6}[ 0-9.:/\\n\\t\"']{1}[A-Za-z_-]{0,6}",
        2 => any::<String>(),
    ]
}

pub fn property(_tier: Tier) -> Property {
    let tv = tag_values();
    let n = tv.len();
    let tv2 = tv.clone();
    let sv = subsystem_values();
    let m = sv.len();
    let sv2 = sv.clone();
    Property {
        id: "C20",
        level: "exploration",
        parts: vec![
            Box::new(ExhaustivePart {
                name: "tag_pairs",
                rule: "all ordered pairs over: 31 named variants, Tag::Other and Tag::try_from of each name in own/lower/upper/alternating case and of another variant's name, some unknown names, Tag::any(); laws ==/!=/hash/cmp/partial_cmp/PartialEq<&str>/HashMap/BTreeMap/HashSet against an independent name table; non-trivial = the two values are different list entries",
                space: Box::new(move |_| Box::new((0..n * n).map(move |i| Pair { a: i / n, b: i % n }))),
                check: Box::new(move |p| check_tag_pair(&tv2, p)),
            }),
            Box::new(ExhaustivePart {
                name: "subsystem_pairs",
                rule: "all ordered pairs over 14 named subsystems, Subsystem::Other of each name (also upper-cased) and unknown names; laws as_str/==/hash/HashMap/HashSet against the idle subsystem list of the protocol reference",
                space: Box::new(move |_| Box::new((0..m * m).map(move |i| Pair { a: i / m, b: i % m }))),
                check: Box::new(move |p| check_subsystem_pair(&sv2, p)),
            }),
            Box::new(RandomPart {
                name: "tag_strings",
                rule: "proptest: candidate tag strings (valid alphabet, known names in random letter case, known names with one inserted arbitrary char, strings with one forbidden char, arbitrary Unicode); try_from is Ok iff non-empty and all of [A-Za-z_-], known names give the named variant, name round trip; non-trivial = known name in some case, unknown valid name, or exactly one forbidden character",
                cases: (50_000, 30_000_000),
                strategy: Box::new(|_t: Tier| tag_string().prop_map(|s| StrCase { s }).boxed()),
                check: Box::new(check_try_from),
            }),
            crate::props::c20_events::part(),
        ],
        assumptions: vec![
            "the harness name tables (MPD tag/Names.cxx, Picard's MusicBrainz mapping, idle subsystem list) are the reference",
        ],
        selftest: None,
    }
}

