//! C20 — tags and subsystems compare, hash and parse by protocol name.
//! Independent name tables + Eq/Ord/Hash coherence laws; exhaustive over the pair space.

use std::{
    cmp::Ordering,
    collections::{hash_map::DefaultHasher, BTreeMap, HashMap, HashSet},
    hash::Hash,
};

use bytes::BytesMut;
use mpd_client::{client::Subsystem, tag::Tag};
use mpd_protocol::command::Argument;
use proptest::prelude::*;
use serde::{Deserialize, Serialize};

use crate::core::{pick_idx, CaseResult, ExhaustivePart, Property, RandomPart, Tier};

/// Written from MPD's tag table (src/tag/Names.cxx) and the MusicBrainz Picard mapping the
/// crate's documentation refers to; *not* copied from tag.rs.
pub fn tag_table() -> Vec<(Tag, &'static str)> {
    vec![
        (Tag::Album, "Album"),
        (Tag::AlbumArtist, "AlbumArtist"),
        (Tag::AlbumArtistSort, "AlbumArtistSort"),
        (Tag::AlbumSort, "AlbumSort"),
        (Tag::Artist, "Artist"),
        (Tag::ArtistSort, "ArtistSort"),
        (Tag::Comment, "Comment"),
        (Tag::Composer, "Composer"),
        (Tag::ComposerSort, "ComposerSort"),
        (Tag::Conductor, "Conductor"),
        (Tag::Date, "Date"),
        (Tag::Disc, "Disc"),
        (Tag::Ensemble, "Ensemble"),
        (Tag::Genre, "Genre"),
        (Tag::Grouping, "Grouping"),
        (Tag::Label, "Label"),
        (Tag::Location, "Location"),
        (Tag::Movement, "Movement"),
        (Tag::MovementNumber, "MovementNumber"),
        (Tag::MusicBrainzArtistId, "MUSICBRAINZ_ARTISTID"),
        // Picard: "MusicBrainz Recording Id" is stored as MUSICBRAINZ_TRACKID
        (Tag::MusicBrainzRecordingId, "MUSICBRAINZ_TRACKID"),
        (Tag::MusicBrainzReleaseArtistId, "MUSICBRAINZ_ALBUMARTISTID"),
        (Tag::MusicBrainzReleaseId, "MUSICBRAINZ_ALBUMID"),
        // Picard: "MusicBrainz Track Id" (release track) is MUSICBRAINZ_RELEASETRACKID
        (Tag::MusicBrainzTrackId, "MUSICBRAINZ_RELEASETRACKID"),
        (Tag::MusicBrainzWorkId, "MUSICBRAINZ_WORKID"),
        (Tag::Name, "Name"),
        (Tag::OriginalDate, "OriginalDate"),
        (Tag::Performer, "Performer"),
        (Tag::Title, "Title"),
        (Tag::Track, "Track"),
        (Tag::Work, "Work"),
    ]
}

/// From the protocol reference, command `idle`.
pub fn subsystem_table() -> Vec<(Subsystem, &'static str)> {
    vec![
        (Subsystem::Database, "database"),
        (Subsystem::Update, "update"),
        (Subsystem::StoredPlaylist, "stored_playlist"),
        (Subsystem::Queue, "playlist"),
        (Subsystem::Player, "player"),
        (Subsystem::Mixer, "mixer"),
        (Subsystem::Output, "output"),
        (Subsystem::Options, "options"),
        (Subsystem::Partition, "partition"),
        (Subsystem::Sticker, "sticker"),
        (Subsystem::Subscription, "subscription"),
        (Subsystem::Message, "message"),
        (Subsystem::Neighbor, "neighbor"),
        (Subsystem::Mount, "mount"),
    ]
}

pub fn tag_name(t: &Tag) -> String {
    let mut b = BytesMut::new();
    t.render(&mut b);
    String::from_utf8(b.to_vec()).expect("tag names are UTF-8")
}

/// A hasher in the style of rustc's FxHasher: every `write` call is consumed in 8-byte words with the
/// last one zero-padded, so the result depends on how the bytes were split over calls. `Hash` demands
/// `a == b => hash(a) == hash(b)` for EVERY hasher; std's SipHash alone cannot see a violation that
/// consists in feeding the same bytes in different pieces.
#[derive(Default, Clone)]
pub struct WordHasher(u64);

impl std::hash::Hasher for WordHasher {
    fn write(&mut self, bytes: &[u8]) {
        for chunk in bytes.chunks(8) {
            let mut w = [0u8; 8];
            w[..chunk.len()].copy_from_slice(chunk);
            self.0 = (self.0.rotate_left(5) ^ u64::from_le_bytes(w)).wrapping_mul(0x51_7c_c1_b7_27_22_0a_95);
        }
    }
    fn finish(&self) -> u64 {
        self.0
    }
}

/// Byte-wise FNV-1a that also mixes in the length of every `write` call.
#[derive(Clone)]
pub struct CallHasher(u64);

impl Default for CallHasher {
    fn default() -> Self {
        CallHasher(0xcbf2_9ce4_8422_2325)
    }
}

impl std::hash::Hasher for CallHasher {
    fn write(&mut self, bytes: &[u8]) {
        for b in bytes.iter().copied().chain([bytes.len() as u8, 0xfe]) {
            self.0 = (self.0 ^ u64::from(b)).wrapping_mul(0x0000_0100_0000_01b3);
        }
    }
    fn finish(&self) -> u64 {
        self.0
    }
}

/// the value's hash under three hashers (SipHash, word-wise, call-sensitive)
pub fn h<T: Hash + ?Sized>(t: &T) -> (u64, u64, u64) {
    use std::hash::Hasher;
    let mut s = DefaultHasher::new();
    t.hash(&mut s);
    let mut w = WordHasher::default();
    t.hash(&mut w);
    let mut c = CallHasher::default();
    t.hash(&mut c);
    (s.finish(), w.finish(), c.finish())
}

fn alternating(s: &str) -> String {
    s.chars()
        .enumerate()
        .map(|(i, c)| if i % 2 == 0 { c.to_ascii_lowercase() } else { c.to_ascii_uppercase() })
        .collect()
}

/// (value, name the value must carry)
fn tag_values() -> Vec<(Tag, String)> {
    let table = tag_table();
    let mut out: Vec<(Tag, String)> = Vec::new();
    for (i, (t, n)) in table.iter().enumerate() {
        out.push((t.clone(), n.to_string()));
        let other_name = table[(i + 7) % table.len()].1;
        for s in [n.to_string(), n.to_lowercase(), n.to_uppercase(), alternating(n), other_name.to_string()] {
            out.push((Tag::Other(s.clone().into_boxed_str()), s.clone()));
            // parsing any spelling of a known name gives the named variant, whose name is canonical
            let parsed = Tag::try_from(s.as_str()).expect("valid tag string");
            let canon = table
                .iter()
                .find(|(_, c)| c.eq_ignore_ascii_case(&s))
                .map(|(_, c)| c.to_string())
                .unwrap();
            out.push((parsed, canon));
        }
    }
    for s in ["any", "foo", "Foo", "file", "x-y_z", "ALBUM-", "albumartis"] {
        out.push((Tag::Other(s.into()), s.to_string()));
        out.push((Tag::try_from(s).unwrap(), s.to_string()));
    }
    out.push((Tag::any(), "any".to_string()));
    out
}

#[derive(Debug, Clone, Serialize, Deserialize)]
pub struct MassCase {
    pub seed: u64,
}

fn check_mass(case: &MassCase) -> CaseResult {
    let mut r = CaseResult::new();
    r.nontrivial();
    let table = tag_table();
    let lens: Vec<usize> = table.iter().map(|(_, n)| n.len()).collect();
    let mut x = case.seed | 1;
    let mut next = move || {
        // xorshift64*: cheap, and every choice is a function of the case's seed
        x ^= x >> 12;
        x ^= x << 25;
        x ^= x >> 27;
        x.wrapping_mul(0x2545_f491_4f6c_dd1d)
    };
    let mut buf = String::with_capacity(40);
    for _ in 0..200_000u32 {
        let len = lens[(next() % lens.len() as u64) as usize];
        buf.clear();
        let mut bits = 0u64;
        for i in 0..len {
            if i % 8 == 0 {
                bits = next();
            }
            let b = (bits & 0xff) as u8;
            bits >>= 8;
            let c = if b >= 224 { b"ABCDEFGHIJKLMNOPQRSTUVWXYZ_-__--"[(b - 224) as usize] } else { b'a' + b % 26 };
            buf.push(c as char);
        }
        match Tag::try_from(buf.as_str()) {
            Ok(Tag::Other(s)) if *s == *buf => {}
            Ok(other) => {
                if table.iter().any(|(_, n)| n.eq_ignore_ascii_case(&buf)) {
                    continue;
                }
                r.fail(format!("Tag::try_from({buf:?}) = {other:?} (renders as {:?}), expected the catch-all carrying that very string", tag_name(&other)));
                return r;
            }
            Err(e) => {
                r.fail(format!("Tag::try_from({buf:?}) rejected a name over [A-Za-z_-]: {e}"));
                return r;
            }
        }
    }
    r.execs = 200_000;
    r
}

#[derive(Debug, Clone, Serialize, Deserialize)]
pub struct Pair {
    pub a: usize,
    pub b: usize,
}

fn check_tag_pair(values: &[(Tag, String)], p: &Pair) -> CaseResult {
    let mut r = CaseResult::new();
    let (a, an) = &values[p.a];
    let (b, bn) = &values[p.b];
    let (ra, rb) = (tag_name(a), tag_name(b));
    if &ra != an || &rb != bn {
        r.fail(format!("{a:?} renders as {ra:?}, table says {an:?} (or {b:?}: {rb:?} vs {bn:?})"));
        return r;
    }
    let same = an == bn;
    r.class_if(same, "same_name");
    r.class_if(!same && an.eq_ignore_ascii_case(bn), "differ_only_in_case");
    let mixed = matches!(a, Tag::Other(_)) != matches!(b, Tag::Other(_));
    r.class_if(mixed, "named_vs_catch_all");
    if same && mixed || (!same && an.eq_ignore_ascii_case(bn)) {
        r.nontrivial();
    }
    if p.a != p.b {
        r.nontrivial();
    }
    if (a == b) != same {
        r.fail(format!("{a:?} == {b:?} is {}, names {an:?} / {bn:?}", a == b));
    }
    if (a != b) == same {
        r.fail(format!("{a:?} != {b:?} inconsistent with =="));
    }
    if same && h(a) != h(b) {
        r.fail(format!("{a:?} and {b:?} are equal but hash differently"));
    }
    let want = an.as_bytes().cmp(bn.as_bytes());
    if a.cmp(b) != want || a.partial_cmp(b) != Some(want) {
        r.fail(format!("cmp({a:?}, {b:?}) = {:?}, names order {want:?}", a.cmp(b)));
    }
    if (a.cmp(b) == Ordering::Equal) != (a == b) {
        r.fail(format!("cmp and == disagree for {a:?}, {b:?}"));
    }
    if (*a == bn.as_str()) != same {
        r.fail(format!("{a:?} == {bn:?} (str) is {}", *a == bn.as_str()));
    }
    // interchangeable in maps and sets
    let mut hm = HashMap::new();
    hm.insert(a.clone(), 1);
    let mut bm = BTreeMap::new();
    bm.insert(a.clone(), 1);
    let mut hs = HashSet::new();
    hs.insert(a.clone());
    if hm.contains_key(b) != same || bm.contains_key(b) != same || hs.contains(b) != same {
        r.fail(format!("map/set lookup of {b:?} in a collection holding {a:?} is wrong (same name: {same})"));
    }
    // ... and as parts of composite keys: slices, vectors and arrays hash through `Hash::hash_slice`,
    // tuples / Option / Box through `hash` of the element
    if same {
        let (va, vb) = (vec![a.clone(), a.clone()], vec![b.clone(), b.clone()]);
        let (xa, xb) = ([a.clone()], [b.clone()]);
        if va != vb || h(&va) != h(&vb) || h(&va[..]) != h(&vb[..]) || h(&xa) != h(&xb) {
            r.fail(format!("vectors / slices / arrays of the equal tags {a:?} and {b:?} differ or hash differently"));
        }
        if h(&(a.clone(), 7u8)) != h(&(b.clone(), 7u8)) || h(&Some(a.clone())) != h(&Some(b.clone())) || h(&Box::new(a.clone())) != h(&Box::new(b.clone())) {
            r.fail(format!("tuples / options / boxes holding the equal tags {a:?} and {b:?} hash differently"));
        }
        let mut keyed: HashSet<Vec<Tag>> = HashSet::new();
        keyed.insert(va);
        if !keyed.contains(&vb) {
            r.fail(format!("a set of tag lists holding [{a:?}, {a:?}] does not find the equal list [{b:?}, {b:?}]"));
        }
    }
    // the same with a map that uses a word-wise hasher (what the popular fast hash maps do)
    let mut wm: HashMap<Tag, i32, std::hash::BuildHasherDefault<WordHasher>> = HashMap::default();
    wm.insert(a.clone(), 1);
    if same && !wm.contains_key(b) {
        r.fail(format!("lookup of {b:?} in a HashMap with a word-wise hasher holding the equal key {a:?} misses"));
    }
    r
}

fn check_subsystem_pair(values: &[(Subsystem, String)], p: &Pair) -> CaseResult {
    let mut r = CaseResult::new();
    let (a, an) = &values[p.a];
    let (b, bn) = &values[p.b];
    if a.as_str() != an || b.as_str() != bn {
        r.fail(format!("{a:?}.as_str() = {:?}, table says {an:?}", a.as_str()));
        return r;
    }
    let same = an == bn;
    r.class_if(same, "same_name");
    if p.a != p.b {
        r.nontrivial();
    }
    r.class_if(matches!(a, Subsystem::Other(_)) != matches!(b, Subsystem::Other(_)), "named_vs_catch_all");
    if (a == b) != same || (a != b) == same {
        r.fail(format!("{a:?} == {b:?} is {}, names {an:?} / {bn:?}", a == b));
    }
    if same && h(a) != h(b) {
        r.fail(format!("{a:?} and {b:?} are equal but hash differently"));
    }
    let mut hm = HashMap::new();
    hm.insert(a.clone(), 1);
    let mut hs = HashSet::new();
    hs.insert(a.clone());
    if hm.contains_key(b) != same || hs.contains(b) != same {
        r.fail(format!("map/set lookup of {b:?} in a collection holding {a:?} is wrong"));
    }
    if same {
        let (va, vb) = (vec![a.clone(), a.clone()], vec![b.clone(), b.clone()]);
        if va != vb || h(&va) != h(&vb) || h(&va[..]) != h(&vb[..]) || h(&[a.clone()]) != h(&[b.clone()]) || h(&(a.clone(), 7u8)) != h(&(b.clone(), 7u8)) || h(&Some(a.clone())) != h(&Some(b.clone())) {
            r.fail(format!("lists / tuples / options of the equal subsystems {a:?} and {b:?} differ or hash differently"));
        }
        let mut keyed: HashSet<Vec<Subsystem>> = HashSet::new();
        keyed.insert(va);
        if !keyed.contains(&vb) {
            r.fail(format!("a set of subsystem lists holding [{a:?}, {a:?}] does not find the equal list [{b:?}, {b:?}]"));
        }
    }
    r
}

fn subsystem_values() -> Vec<(Subsystem, String)> {
    let mut out = Vec::new();
    for (s, n) in subsystem_table() {
        out.push((s, n.to_string()));
        out.push((Subsystem::Other(n.into()), n.to_string()));
        out.push((Subsystem::Other(n.to_uppercase().into()), n.to_uppercase()));
    }
    for n in ["queue", "Player", "foo", "", "stored-playlist", "storedplaylist", "StoredPlaylist", "neighbour", "Queue"] {
        out.push((Subsystem::Other(n.into()), n.to_string()));
    }
    out
}

#[derive(Debug, Clone, Serialize, Deserialize)]
pub struct StrCase {
    pub s: String,
}

fn check_try_from(c: &StrCase) -> CaseResult {
    let mut r = CaseResult::new();
    let s = c.s.as_str();
    let valid = !s.is_empty() && s.chars().all(|ch| ch.is_ascii_alphabetic() || ch == '_' || ch == '-');
    let res = Tag::try_from(s);
    if let Err(e) = &res {
        let _ = e.to_string();
    }
    r.class_if(valid, "valid");
    r.class_if(!valid, "invalid");
    r.class_if(s.is_empty(), "empty");
    if res.is_ok() != valid {
        r.fail(format!("Tag::try_from({s:?}) = {res:?}, expected {}", if valid { "Ok" } else { "Err" }));
        return r;
    }
    if !valid {
        if s.chars().filter(|ch| !(ch.is_ascii_alphabetic() || *ch == '_' || *ch == '-')).count() == 1 {
            r.nontrivial();
        }
        return r;
    }
    let t = res.unwrap();
    let name = tag_name(&t);
    let table = tag_table();
    match table.iter().find(|(_, n)| n.eq_ignore_ascii_case(s)) {
        Some((variant, canon)) => {
            r.class("known_name");
            r.nontrivial();
            if name != *canon || &t != variant || matches!(t, Tag::Other(_)) {
                r.fail(format!("try_from({s:?}) = {t:?} (name {name:?}), expected the named variant {canon}"));
            }
        }
        None => {
            r.class("unknown_name");
            if name != s {
                r.fail(format!("try_from({s:?}) carries the name {name:?}"));
            }
            if s.len() > 1 {
                r.nontrivial();
            }
        }
    }
    // parsing a tag's own protocol name gives back an equal tag
    match Tag::try_from(name.as_str()) {
        Ok(t2) if t2 == t && tag_name(&t2) == name => {}
        other => r.fail(format!("try_from(name({t:?}) = {name:?}) = {other:?}")),
    }
    r
}

fn tag_string() -> impl Strategy<Value = String> {
    let table = tag_table();
    let names: Vec<&'static str> = table.iter().map(|(_, n)| *n).collect();
    let names2 = names.clone();
    let names3 = names.clone();
    prop_oneof![
        3 => "[A-Za-z_-]{1,16}",
        3 => (0..names.len(), any::<u32>()).prop_map(move |(i, mask)| {
            names[i]
                .chars()
                .enumerate()
                .map(|(k, c)| if mask >> (k % 32) & 1 == 1 { c.to_ascii_uppercase() } else { c.to_ascii_lowercase() })
                .collect::<String>()
        }),
        2 => (0..names2.len(), 0..30usize, any::<char>()).prop_map(move |(i, pos, c)| {
            let mut s = names2[i].to_string();
            let pos = pos.min(s.len());
            s.insert(pos, c);
            s
        }),
        1 => Just(String::new()),
        // the Rust identifier of a named variant (`AlbumArtist`, `MusicBrainzRecordingId`, ...) in several
        // letter cases: where it is not itself a protocol name it is an unknown name like any other
        2 => (0..table.len(), 0..4u8).prop_map(move |(i, how)| {
            let ident = format!("{:?}", table[i].0);
            match how { 0 => ident, 1 => ident.to_lowercase(), 2 => ident.to_uppercase(), _ => alternating(&ident) }
        }),
        // a known name with one letter replaced by a non-ASCII character that Unicode case mapping
        // turns into that letter (KELVIN SIGN -> k, LONG S -> S, dotless/dotted I, fullwidth forms)
        2 => (0..names3.len(), any::<u16>(), any::<u8>()).prop_map(move |(i, at, pick)| {
            let mut cs: Vec<char> = names3[i].chars().collect();
            let cands: Vec<usize> = (0..cs.len()).filter(|k| "kKsSiI".contains(cs[*k]) || cs[*k].is_ascii_alphabetic()).collect();
            let k = cands[pick_idx(at, cands.len())];
            cs[k] = match cs[k] {
                'k' | 'K' => '\u{212A}',
                's' | 'S' => '\u{17F}',
                'i' => ['\u{130}', '\u{131}'][pick as usize % 2],
                'I' => ['\u{131}', '\u{130}'][pick as usize % 2],
                c => char::from_u32(0xFF21 + (c.to_ascii_uppercase() as u32 - 'A' as u32) + if c.is_ascii_lowercase() { 0x20 } else { 0 }).unwrap(),
            };
            cs.into_iter().collect::<String>()
        }),
        2 => "[A-Za-z_-]{0,6}[ 0-9.:/\\n\\t\"']{1}[A-Za-z_-]{0,6}",
        2 => any::<String>(),
    ]
}

pub fn property(_tier: Tier) -> Property {
    let tv = tag_values();
    let n = tv.len();
    let tv2 = tv.clone();
    let sv = subsystem_values();
    let m = sv.len();
    let sv2 = sv.clone();
    Property {
        id: "C20",
        level: "exploration",
        parts: vec![
            Box::new(ExhaustivePart {
                name: "tag_pairs",
                rule: "all ordered pairs over: 31 named variants, Tag::Other and Tag::try_from of each name in own/lower/upper/alternating case and of another variant's name, some unknown names, Tag::any(); laws ==/!=/hash/cmp/partial_cmp/PartialEq<&str>/HashMap/BTreeMap/HashSet against an independent name table; non-trivial = the two values are different list entries",
                space: Box::new(move |_| Box::new((0..n * n).map(move |i| Pair { a: i / n, b: i % n }))),
                check: Box::new(move |p| check_tag_pair(&tv2, p)),
            }),
            Box::new(ExhaustivePart {
                name: "subsystem_pairs",
                rule: "all ordered pairs over 14 named subsystems, Subsystem::Other of each name (also upper-cased) and unknown names; laws as_str/==/hash/HashMap/HashSet against the idle subsystem list of the protocol reference",
                space: Box::new(move |_| Box::new((0..m * m).map(move |i| Pair { a: i / m, b: i % m }))),
                check: Box::new(move |p| check_subsystem_pair(&sv2, p)),
            }),
            Box::new(RandomPart {
                name: "tag_strings",
                rule: "proptest: candidate tag strings (valid alphabet, known names in random letter case, known names with one inserted arbitrary char, strings with one forbidden char, arbitrary Unicode); try_from is Ok iff non-empty and all of [A-Za-z_-], known names give the named variant, name round trip; non-trivial = known name in some case, unknown valid name, or exactly one forbidden character",
                cases: (50_000, 30_000_000),
                strategy: Box::new(|_t: Tier| tag_string().prop_map(|s| StrCase { s }).boxed()),
                check: Box::new(check_try_from),
            }),
            Box::new(RandomPart {
                name: "unknown_names_en_masse",
                rule: "each case = 200 000 pseudo-random names (derived from the case's 64-bit seed) of exactly the length of some known tag name over [a-z] (1 in 8 characters from [A-Z_-]): every one that is not a known name in some letter case must parse to the catch-all carrying exactly that string, and the same for Subsystem via as_str of a parsed idle reply is covered by subsystem_events. Purpose: a lookup that identifies known names by anything less than the name itself (a 32-bit hash, a prefix, a length class) confuses one unknown name in 10^9-10^10 with a known one; quick examines 3*10^8 names, thorough 4*10^9. non-trivial = every case",
                cases: (1_600, 20_000),
                strategy: Box::new(|_t: Tier| any::<u64>().prop_map(|seed| MassCase { seed }).boxed()),
                check: Box::new(check_mass),
            }),
            crate::props::c20_events::part(),
        ],
        assumptions: vec![
            "the harness name tables (MPD tag/Names.cxx, Picard's MusicBrainz mapping, idle subsystem list) are the reference",
        ],
        selftest: None,
    }
}

