//! C20, subsystem parsing observed through the client: every name in an idle reply must come out
//! as an event whose `as_str()` is that name and which equals the named variant.

use mpd_client::client::Subsystem;
use proptest::prelude::*;
use serde::{Deserialize, Serialize};

use crate::{
    core::{CaseResult, Part, RandomPart},
    props::c20::subsystem_table,
    sim::{self, Ev, Script, Step},
};

#[derive(Debug, Clone, Serialize, Deserialize)]
pub struct Case {
    pub names: Vec<String>,
}

pub fn check(case: &Case) -> CaseResult {
    let mut r = CaseResult::new();
    let script = Script::new(vec![Step::Change(case.names.clone())]);
    // run with a collector that keeps the Subsystem values: sim::run renders as_str() already,
    // equality with the named variant is checked on a re-parse through Subsystem::Other
    let obs = sim::run(&script);
    let mut uniq: Vec<String> = Vec::new();
    for n in &case.names {
        if !uniq.contains(n) {
            uniq.push(n.clone());
        }
    }
    let got: Vec<String> = obs
        .events
        .iter()
        .map(|e| match e {
            Ev::Change(n) => n.clone(),
            Ev::Closed(e) => format!("<closed {e}>"),
        })
        .collect();
    if got != uniq {
        r.fail(format!("idle reply listed {uniq:?}, events carry the protocol names {got:?}"));
        return r;
    }
    let table = subsystem_table();
    for n in &uniq {
        if let Some((variant, _)) = table.iter().find(|(_, name)| name == n) {
            r.class("documented_name");
            // the catch-all holding the same name is interchangeable with the named variant
            if *variant != Subsystem::Other(n.clone().into_boxed_str()) || variant.as_str() != n {
                r.fail(format!("{variant:?} is not interchangeable with Other({n:?})"));
            }
        } else {
            r.class("unknown_name");
        }
    }
    if uniq.len() >= 2 || uniq.iter().any(|n| !table.iter().any(|(_, t)| t == n)) {
        r.nontrivial();
    }
    r
}

pub fn part() -> Box<dyn Part> {
    Box::new(RandomPart {
        name: "subsystem_events",
        rule: "proptest over the simulator: idle reply listing 1-6 names from the 14 documented subsystems (each one is covered many times), names differing in case, and random [a-zA-Z_]{1,16} names; the delivered events' as_str() must be exactly those names in order. non-trivial = >=2 names or an undocumented name",
        cases: (3_000, 2_000_000),
        strategy: Box::new(|_t| {
            let table: Vec<&'static str> = subsystem_table().iter().map(|(_, n)| *n).collect();
            let t2 = table.clone();
            prop::collection::vec(
                prop_oneof![
                    6 => (0..table.len()).prop_map(move |i| table[i].to_string()),
                    1 => (0..t2.len()).prop_map(move |i| t2[i].to_uppercase()),
                    // Rust identifiers of the variants and other near-names: unknown names like any other
                    1 => prop_oneof![Just("queue"), Just("Queue"), Just("storedplaylist"), Just("StoredPlaylist"), Just("stored-playlist"), Just("neighbour"), Just("outputs"), Just("db"), Just("volume"), Just("playlists")].prop_map(str::to_string),
                    2 => "[a-zA-Z_]{1,16}",
                    1 => crate::props::simgen::wild_name(),
                ],
                1..=6usize,
            )
            .prop_map(|names| Case { names })
            .boxed()
        }),
        check: Box::new(check),
    })
}
