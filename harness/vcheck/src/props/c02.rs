//! C02 — parsed responses do not depend on how the byte stream is split into reads.
//! Metamorphic (segmentation invariance) + differential (blocking = async).

use proptest::prelude::*;
use serde::{Deserialize, Serialize};

use crate::{
    core::{pick_idx, CaseResult, Property, RandomPart, Tier, B},
    seg::{seg_strategy, Seg},
    streamlab::{brief, diff, run, Flavour, Terminal, GREETING},
    wire::{self, AResp},
};

#[derive(Debug, Clone, Serialize, Deserialize)]
pub enum Corr {
    Truncate(u16),
    /// the stream ends after exactly this many bytes (a read that fills the buffer to the brim)
    TruncateAt(usize),
    Flip { at: u16, xor: u8 },
    Insert { at: u16, bytes: B },
    Delete { at: u16, n: u8 },
    /// insert a whole line at a line start
    SpliceLine { at: u16, line: B },
}

pub fn apply(mut s: Vec<u8>, c: &Corr) -> Vec<u8> {
    match c {
        Corr::Truncate(at) => {
            let n = pick_idx(*at, s.len() + 1);
            s.truncate(n);
        }
        Corr::TruncateAt(n) => s.truncate(*n),
        Corr::Flip { at, xor } => {
            if !s.is_empty() {
                let i = pick_idx(*at, s.len());
                s[i] ^= (*xor).max(1);
            }
        }
        Corr::Insert { at, bytes } => {
            let i = pick_idx(*at, s.len() + 1);
            s.splice(i..i, bytes.0.iter().copied());
        }
        Corr::Delete { at, n } => {
            if !s.is_empty() {
                let i = pick_idx(*at, s.len());
                let e = (i + *n as usize + 1).min(s.len());
                s.drain(i..e);
            }
        }
        Corr::SpliceLine { at, line } => {
            let starts: Vec<usize> =
                std::iter::once(0).chain(s.iter().enumerate().filter(|(_, b)| **b == b'\n').map(|(i, _)| i + 1)).collect();
            let i = starts[pick_idx(*at, starts.len())];
            let mut l = line.0.clone();
            l.push(b'\n');
            s.splice(i..i, l);
        }
    }
    s
}

pub fn edge_line() -> impl Strategy<Value = B> {
    prop_oneof![
        Just("binary: 18446744073709551616"),
        Just("binary: 18446744073709551615"),
        Just("binary: 99999999999999999999999999"),
        Just("binary: 007"),
        Just("binary: -1"),
        Just("binary: 3x"),
        Just("binary: "),
        Just("binary:3"),
        Just("binary: 0"),
        Just("ACK [99999999999999999999@0] {} x"),
        Just("ACK [18446744073709551616@0] {} x"),
        Just("ACK [5@18446744073709551615] {} x"),
        Just("ACK [5@0] {} "),
        Just("ACK [5@0] {}"),
        Just("ACK [5@0] {pl ay} x"),
        Just("ACK [5@0]  {} x"),
        Just("ACK [05@00] {} leading zeros"),
        Just("ACK"),
        Just("ACK "),
        Just("ACK: x"),
        Just("OK "),
        Just("OK\r"),
        Just(" OK"),
        Just("ok"),
        Just("list_OK "),
        Just("list_ok"),
        Just("foo:bar"),
        Just("foo:  two blanks"),
        Just("foo bar: x"),
        Just("f0o: digit in key"),
        Just(": empty key"),
        Just(""),
        Just("key: nul\0inside"),
        Just("k\0y: nul in key"),
        Just("OK MPD 0.23.5"),
    ]
    .prop_map(B::from)
    .boxed()
    .prop_union(
        prop_oneof![
            Just(B(b"a: \xff\xfe".to_vec())),
            Just(B(b"\xffkey: v".to_vec())),
            Just(B(b"ACK [5@0] {} \xc3".to_vec())),
            Just(B(b"a: \xc3\xa4 ok utf8".to_vec())),
            Just(B(b"a: \xed\xa0\x80 surrogate".to_vec())),
            // payload of the announced length not followed by LF
            // valid UTF-8 letters outside ASCII are not part of the key / command alphabet
            Just(B("Voc\u{ea}: x".as_bytes().to_vec())),
            Just(B("\u{b5}: 1".as_bytes().to_vec())),
            Just(B("\u{43a}\u{43b}\u{44e}\u{447}: v".as_bytes().to_vec())),
            Just(B("ACK [5@0] {m\u{fa}sica} oops".as_bytes().to_vec())),
            Just(B("\u{e9}t\u{e9}: x".as_bytes().to_vec())),
            Just(B(b"binary: 2\nabX".to_vec())),
            Just(B(b"binary: 0\nx".to_vec())),
            Just(B(b"binary: 3\nab\n".to_vec())),
            Just(B(b"binary: 1\n\n".to_vec())),
        ]
        .boxed(),
    )
}

pub fn corruption() -> impl Strategy<Value = Corr> {
    prop_oneof![
        3 => any::<u16>().prop_map(Corr::Truncate),
        2 => prop_oneof![Just(4095usize), Just(4096), Just(4097), Just(8191), Just(8192), Just(8193), Just(16384), Just(32768), Just(65536)].prop_map(Corr::TruncateAt),
        3 => (any::<u16>(), any::<u8>()).prop_map(|(at, xor)| Corr::Flip { at, xor }),
        2 => (any::<u16>(), prop::collection::vec(any::<u8>(), 1..4usize)).prop_map(|(at, b)| Corr::Insert { at, bytes: B(b) }),
        2 => (any::<u16>(), 0..3u8).prop_map(|(at, n)| Corr::Delete { at, n }),
        3 => (any::<u16>(), edge_line()).prop_map(|(at, line)| Corr::SpliceLine { at, line }),
    ]
}

#[derive(Debug, Clone, Serialize, Deserialize)]
pub struct Case {
    pub resps: Vec<AResp>,
    pub corr: Option<Corr>,
    pub segs: Vec<Seg>,
}

pub fn stream_of(case: &Case) -> Vec<u8> {
    let enc = wire::encode(&case.resps);
    match &case.corr {
        Some(c) => apply(enc.bytes, c),
        None => enc.bytes,
    }
}

fn all_cuts_limit(tier: Tier) -> usize {
    tier.pick(512, 2048)
}

pub fn check_with(case: &Case, all_cuts_up_to: usize) -> CaseResult {
    let mut r = CaseResult::new();
    let stream = stream_of(case);
    let reference = run(Flavour::Blocking, GREETING, &stream, &Seg::Whole, 0);
    let mut execs = 1u64;

    let rich = case.resps.len() >= 2 || case.resps.iter().any(wire::has_payload) || stream.len() > 4096;
    r.class_if(case.corr.is_some(), "corrupted");
    r.class_if(stream.len() > 4096, "over_4k");
    r.class_if(stream.len() > 8192, "over_8k");
    r.class_if(stream.len() > 16384, "over_16k");
    r.class(match &reference.terminal {
        Terminal::CleanEof => "ends_clean",
        Terminal::Invalid => "ends_invalid",
        Terminal::Io(_) => "ends_unexpected_eof",
        _ => "ends_other",
    });
    if let Terminal::Panic(p) = &reference.terminal {
        // a panic is C09's verdict; here it simply has to be the same everywhere
        r.class("reference_panics");
        let _ = p;
    }

    let mut segs: Vec<Seg> = vec![Seg::Whole, Seg::OneByte];
    segs.extend(case.segs.iter().cloned());
    for seg in &segs {
        // the plain flavours, and the ones in which every read is preceded by an interruption (transient
        // WouldBlock / dropped future), the application sends commands of its own in between, and the
        // connection now and then changes threads: none of this changes what the peer's bytes decode to
        for fl in crate::streamlab::ALL_FLAVOURS {
            if *seg == Seg::Whole && fl == Flavour::Blocking {
                continue;
            }
            if matches!(fl, Flavour::BlockingInterrupted | Flavour::AsyncCancelled) && *seg == Seg::OneByte && stream.len() > 1500 {
                continue;
            }
            // byte-sized reads over streams beyond 30 KB only cost time (the buffer logic under
            // test is driven by the large reads)
            if stream.len() > 30_000 && matches!(seg, Seg::OneByte | Seg::Chunk(0..=63)) {
                continue;
            }
            let obs = run(fl, GREETING, &stream, seg, 0);
            execs += 1;
            if let Some(d) = diff(&reference, &obs) {
                r.fail(format!(
                    "{fl:?} under {seg:?} differs from blocking/whole: {d} [{} | {}]",
                    brief(&reference),
                    brief(&obs)
                ));
                r.execs = execs;
                return r;
            }
            if rich && seg.cuts_inside(stream.len()) {
                r.nontrivial();
            }
        }
    }
    // structure-aware cuts: a read that ends d bytes past a response boundary leaves exactly d
    // bytes of the next response buffered when the previous one completes
    if case.corr.is_none() {
        let enc = wire::encode(&case.resps);
        let mut done = 0;
        for b in enc.boundaries.iter().take(4) {
            for d in [1usize, 4095, 4096, 4097, 8192] {
                let cut = b + d;
                if cut >= stream.len() {
                    continue;
                }
                done += 1;
                let seg = Seg::Cuts(vec![cut]);
                for fl in [Flavour::Blocking, Flavour::Async] {
                    let obs = run(fl, GREETING, &stream, &seg, 0);
                    execs += 1;
                    if let Some(d2) = diff(&reference, &obs) {
                        r.fail(format!("{fl:?} with one cut {d} bytes past the response boundary at {b} differs from blocking/whole: {d2}"));
                        r.execs = execs;
                        return r;
                    }
                }
            }
        }
        r.class_if(done > 0, "cuts_relative_to_response_boundaries");
    }
    if stream.len() <= all_cuts_up_to && stream.len() > 1 {
        r.class("every_cut_point");
        for cut in 1..stream.len() {
            let seg = Seg::Cuts(vec![cut]);
            for fl in [Flavour::Blocking, Flavour::Async] {
                let obs = run(fl, GREETING, &stream, &seg, 0);
                execs += 1;
                if let Some(d) = diff(&reference, &obs) {
                    r.fail(format!("{fl:?} with one cut at {cut} differs from blocking/whole: {d}"));
                    r.execs = execs;
                    return r;
                }
            }
        }
    }
    r.execs = execs;
    r
}

/// One very long line (field value, ACK message or greeting-like text) inside an otherwise small
/// response: lengths on a logarithmic scale up to 4 MiB, read boundaries within a few bytes of the
/// line's ends.
#[derive(Debug, Clone, Serialize, Deserialize)]
pub struct LongLine {
    /// log2 of the base length (12..=22)
    pub log2: u8,
    /// added to 2^log2 (-16..=16)
    pub delta: i8,
    /// 0 field value, 1 ACK message text, 2 field value in the second frame of a command list
    pub kind: u8,
    pub key_len: u8,
    /// offsets of read boundaries before the end of the long line (LF = 0)
    pub back: Vec<u8>,
    pub fill: u8,
}

pub fn check_long_line(case: &LongLine) -> CaseResult {
    let mut r = CaseResult::new();
    let len = ((1usize << case.log2) as i64 + case.delta as i64).max(1) as usize;
    let fill = if case.fill.is_ascii_graphic() { case.fill } else { b'v' };
    let key: String = "Comment".chars().cycle().take(case.key_len.max(1) as usize).collect();
    let mut stream = Vec::with_capacity(len + 64);
    let line_end; // offset of the LF that ends the long line
    match case.kind {
        1 => {
            stream.extend_from_slice(b"a: b\nACK [50@0] {add} ");
            stream.resize(stream.len() + len, fill);
            line_end = stream.len();
            stream.extend_from_slice(b"\n");
        }
        2 => {
            stream.extend_from_slice(b"a: b\nlist_OK\n");
            stream.extend_from_slice(key.as_bytes());
            stream.extend_from_slice(b": ");
            stream.resize(stream.len() + len, fill);
            line_end = stream.len();
            stream.extend_from_slice(b"\nlist_OK\nOK\n");
        }
        _ => {
            stream.extend_from_slice(b"a: b\n");
            stream.extend_from_slice(key.as_bytes());
            stream.extend_from_slice(b": ");
            stream.resize(stream.len() + len, fill);
            line_end = stream.len();
            stream.extend_from_slice(b"\nc: d\nOK\n");
        }
    }
    stream.extend_from_slice(b"z: y\nOK\n");
    r.nontrivial();
    r.class(match case.log2 {
        0..=15 => "line_up_to_64KiB",
        16..=19 => "line_64KiB_to_1MiB",
        _ => "line_1MiB_and_more",
    });
    let reference = run(Flavour::Blocking, GREETING, &stream, &Seg::Whole, 0);
    let mut execs = 1;
    // the reference itself must be the two responses (the long line is well-formed)
    if reference.responses.len() != 2 || reference.terminal != Terminal::CleanEof {
        r.fail(format!("a well-formed stream with one line of {len} bytes: {}", brief(&reference)));
        return r;
    }
    let mut segs = vec![Seg::Chunk(60_000), Seg::Chunk(4096)];
    for b in &case.back {
        segs.push(Seg::Cuts(vec![line_end.saturating_sub(*b as usize)]));
    }
    segs.push(Seg::Cuts(case.back.iter().map(|b| line_end.saturating_sub(*b as usize)).collect()));
    for seg in &segs {
        for fl in [Flavour::Blocking, Flavour::Async] {
            if fl == Flavour::Blocking && *seg == Seg::Whole {
                continue;
            }
            let obs = run(fl, GREETING, &stream, seg, 0);
            execs += 1;
            if let Some(d) = diff(&reference, &obs) {
                let d: String = d.chars().take(300).collect();
                r.fail(format!("line of {len} bytes ending at {line_end}, {fl:?} under {seg:?} differs from blocking/whole: {d} [{} | {}]", brief(&reference), brief(&obs)));
                r.execs = execs;
                return r;
            }
        }
    }
    let obs = run(Flavour::Async, GREETING, &stream, &Seg::Whole, 0);
    execs += 1;
    if let Some(d) = diff(&reference, &obs) {
        let d: String = d.chars().take(300).collect();
        r.fail(format!("line of {len} bytes, async/whole differs from blocking/whole: {d}"));
    }
    r.execs = execs;
    r
}

fn long_line_strategy(tier: Tier) -> BoxedStrategy<LongLine> {
    (
        12..=tier.pick(21u8, 22u8),
        prop_oneof![2 => -16..=16i8, 1 => Just(0i8)],
        prop_oneof![3 => Just(0u8), 1 => Just(1), 1 => Just(2)],
        1..40u8,
        prop::collection::vec(prop_oneof![3 => 0..12u8, 1 => any::<u8>()], 1..5usize),
        any::<u8>(),
    )
        .prop_map(|(log2, delta, kind, key_len, back, fill)| LongLine { log2, delta, kind, key_len, back, fill })
        .boxed()
}

fn strategy(tier: Tier) -> BoxedStrategy<Case> {
    let max_payload = tier.pick(24_000, 40_000);
    (
        prop_oneof![
            3 => wire::responses(4, 300, 300),
            1 => wire::long_sequence(),
            1 => wire::responses_maybe_huge(6, max_payload, tier.pick(5_000, 20_000), 8),
        ],
        prop::option::weighted(0.5, corruption()),
        prop::collection::vec(seg_strategy(9000), 4),
    )
        .prop_map(|(resps, corr, segs)| Case { resps, corr, segs })
        .boxed()
}

pub fn property(tier: Tier) -> Property {
    let limit = all_cuts_limit(tier);
    Property {
        id: "C02",
        level: "exploration",
        parts: vec![Box::new(RandomPart {
            name: "segmentation",
            rule: "proptest: stream = 1-6 encoded responses (small, or with payloads/values beyond 4 KiB and its doublings), with probability 1/2 one corruption (truncate / flip / insert / delete / splice an edge line); run under whole, one-byte, single cuts {1,4095,4096,4097,8192} bytes past each of the first 4 response boundaries, and 4 generated segmentations (random cuts, fixed chunks, cuts at 4096/8192/16384 +-2) x {blocking, async, async+spurious pending}; streams <= 512 B (thorough 2048) additionally under every single cut point x {blocking, async}; all outcome sequences must equal blocking/whole. non-trivial = stream with >=2 responses, a payload or > 4096 B, under a segmentation cutting inside it; distinct by serialised case; 'executions' counts connection runs",
            cases: (2_000, 100_000),
            strategy: Box::new(strategy),
            check: Box::new(move |c| check_with(c, limit)),
        }), Box::new(RandomPart {
            name: "long_lines",
            rule: "proptest: a small response containing ONE line (field value with a 1-39 byte key, ACK message text, or a value in the second frame of a command list) of 2^k + d bytes, k in 12..=21 (thorough 22, i.e. 4 KiB .. 4 MiB), d in -16..=16, followed by a second response; read boundaries 0-11 (sometimes up to 255) bytes before the line's end, singly and together, plus 60000-byte and 4096-byte chunks and whole x {blocking, async}; blocking/whole must deliver both responses and every other run must equal it. non-trivial = every case",
            cases: (320, 20_000),
            strategy: Box::new(long_line_strategy),
            check: Box::new(check_long_line),
        }), crate::fuzzops::corpus_part("fuzz_corpus", "fz_stream", "C02", crate::fuzzops::stream_target)],
        assumptions: vec!["outcomes are compared through public accessors (frames, fields, binary, error fields, terminal outcome)"],
        selftest: None,
    }
}
