//! C11 — filter expressions mean on the server what was built on the client.
//! Round trip through the ports of MPD's tokenizer and filter grammar against a mirror tree.

use mpd_client::{
    commands::{Command as TypedCommand, Count, CountGrouped, Find, List},
    filter::{Filter, Operator},
    tag::Tag,
};
use proptest::prelude::*;
use serde::{Deserialize, Serialize};

use crate::{
    cmdlab::{class_char, sent_bytes},
    core::{escape_bytes, pick_idx, CaseResult, ExhaustivePart, Property, RandomPart, Tier, B},
    mpdfilter::{self, Op, Tree},
    mpdtok,
    props::c20::tag_table,
};

#[derive(Debug, Clone, Serialize, Deserialize)]
pub enum TagSpec {
    Named(u16),
    Any,
    Other(String),
}

#[derive(Debug, Clone, Serialize, Deserialize)]
pub enum FSpec {
    New { tag: TagSpec, op: Op, value: String },
    TagEq { tag: TagSpec, value: String },
    Exists(TagSpec),
    Absent(TagSpec),
    Negate(Box<FSpec>),
    NotOp(Box<FSpec>),
    And(Box<FSpec>, Box<FSpec>),
    /// `n` negations stacked directly on top of each other (alternately `negate()` and `!`); symbolic so
    /// that replay files stay small
    Deep { n: u16, inner: Box<FSpec> },
    /// the filter built so far is *used* before construction goes on: sent as an argument by reference,
    /// formatted, cloned and compared (`how` picks which); a filter is a value, using it must not change
    /// what it or anything derived from it denotes
    Used { how: u8, inner: Box<FSpec> },
}

#[derive(Debug, Clone, Copy, Serialize, Deserialize)]
pub enum Carrier {
    Find,
    Count,
    CountGroupedFilter,
    CountThenGroupBy,
    ListFilter,
    ListFilterGrouped,
    /// `filter()` called twice: documented to overwrite, the one under test is given last
    ListFilterTwice,
    CountGroupedFilterTwice,
    CountThenGroupByThenFilter,
}

/// what the overwritten first call of `filter()` carries
fn decoy() -> Filter {
    Filter::tag(Tag::Genre, "decoy").and(Filter::tag_exists(Tag::Date)).negate()
}

#[derive(Debug, Clone, Serialize, Deserialize)]
pub struct Case {
    pub spec: FSpec,
    pub carrier: Carrier,
    /// Some((before, after)): the command travels inside a command list, between that many other commands
    #[serde(default)]
    pub list: Option<(u8, u8)>,
}

fn tag_of(t: &TagSpec) -> (Tag, String) {
    match t {
        TagSpec::Named(i) => {
            let table = tag_table();
            let (tag, name) = table[pick_idx(*i, table.len())].clone();
            (tag, name.to_string())
        }
        TagSpec::Any => (Tag::any(), "any".to_string()),
        TagSpec::Other(s) => {
            // MPD looks tag names up case-insensitively (tag_name_parse_i): a string that is a known
            // name in another letter case denotes that tag, and the crate (C20) renders it in the
            // canonical spelling. The mirror therefore carries the canonical name from the harness's
            // own table; all other strings stay as they are.
            let name = tag_table().iter().map(|(_, n)| *n).find(|n| n.eq_ignore_ascii_case(s)).map_or_else(|| s.clone(), str::to_string);
            (Tag::try_from(s.as_str()).expect("generator yields valid tag names"), name)
        }
    }
}

fn operator(op: Op) -> Operator {
    match op {
        Op::Equal => Operator::Equal,
        Op::NotEqual => Operator::NotEqual,
        Op::Contains => Operator::Contain,
        Op::Match => Operator::Match,
        Op::NotMatch => Operator::NotMatch,
    }
}

/// Build the filter through the public API only, and the mirror tree next to it.
pub fn build(spec: &FSpec) -> (Filter, Tree) {
    match spec {
        FSpec::New { tag, op, value } => {
            let (t, n) = tag_of(tag);
            (Filter::new(t, operator(*op), value.clone()), Tree::Leaf { tag: n, op: *op, value: B(value.clone().into_bytes()) })
        }
        FSpec::TagEq { tag, value } => {
            let (t, n) = tag_of(tag);
            (Filter::tag(t, value.as_str()), Tree::Leaf { tag: n, op: Op::Equal, value: B(value.clone().into_bytes()) })
        }
        FSpec::Exists(tag) => {
            let (t, n) = tag_of(tag);
            (Filter::tag_exists(t), Tree::Leaf { tag: n, op: Op::NotEqual, value: B(Vec::new()) })
        }
        FSpec::Absent(tag) => {
            let (t, n) = tag_of(tag);
            (Filter::tag_absent(t), Tree::Leaf { tag: n, op: Op::Equal, value: B(Vec::new()) })
        }
        FSpec::Negate(inner) => {
            let (f, t) = build(inner);
            (f.negate(), Tree::Not(Box::new(t)))
        }
        FSpec::NotOp(inner) => {
            let (f, t) = build(inner);
            (!f, Tree::Not(Box::new(t)))
        }
        FSpec::And(a, b) => {
            let (fa, ta) = build(a);
            let (fb, tb) = build(b);
            (fa.and(fb), Tree::And(vec![ta, tb]))
        }
        FSpec::Used { how, inner } => {
            let (f, t) = build(inner);
            let f = use_filter(f, *how);
            (f, t)
        }
        FSpec::Deep { n, inner } => {
            let (mut f, mut t) = build(inner);
            for i in 0..*n {
                f = if i % 2 == 0 { f.negate() } else { !f };
                t = Tree::Not(Box::new(t));
            }
            (f, t)
        }
    }
}

/// Uses `f` the way an application does between two construction steps and hands it (or a clone made
/// afterwards) back.
fn use_filter(f: Filter, how: u8) -> Filter {
    use mpd_protocol::command::Argument;
    if how & 1 != 0 {
        // rendered by reference, twice
        let mut buf = bytes::BytesMut::new();
        (&f).render(&mut buf);
        let _ = mpd_protocol::Command::new("find").argument(&f);
    }
    if how & 2 != 0 {
        let _ = format!("{f:?} {f:#?}");
    }
    if how & 4 != 0 {
        let c = f.clone();
        let _ = c == f;
        let _ = mpd_protocol::Command::new("count").argument(c);
    }
    if how & 8 != 0 {
        // construction goes on from a clone taken after the use
        return f.clone();
    }
    f
}

fn values(t: &Tree, out: &mut Vec<Vec<u8>>) {
    match t {
        Tree::Leaf { value, .. } => out.push(value.0.clone()),
        Tree::Not(i) => values(i, out),
        Tree::And(v) => v.iter().for_each(|x| values(x, out)),
    }
}

fn nesting(t: &Tree, under_not: bool, under_and: bool, not_over_and: &mut bool, and_over_not: &mut bool, depth: usize, max_depth: &mut usize) {
    *max_depth = (*max_depth).max(depth);
    match t {
        Tree::Leaf { .. } => {}
        Tree::Not(i) => {
            if under_and {
                *and_over_not = true;
            }
            nesting(i, true, false, not_over_and, and_over_not, depth + 1, max_depth)
        }
        Tree::And(v) => {
            if under_not {
                *not_over_and = true;
            }
            for x in v {
                nesting(x, false, true, not_over_and, and_over_not, depth + 1, max_depth);
            }
        }
    }
}

/// The argument text the client writes when its only defect is F-I (`"` in a value rendered
/// as `\\"`): used solely to recognise that known finding exactly.
fn render_with_fi(t: &Tree, out: &mut Vec<u8>) {
    match t {
        Tree::Leaf { tag, op, value } => {
            out.push(b'(');
            out.extend_from_slice(tag.as_bytes());
            out.push(b' ');
            out.extend_from_slice(match op {
                Op::Equal => b"==" as &[u8],
                Op::NotEqual => b"!=",
                Op::Contains => b"contains",
                Op::Match => b"=~",
                Op::NotMatch => b"!~",
            });
            out.extend_from_slice(b" \\\"");
            for &b in &value.0 {
                match b {
                    b'\\' => out.extend_from_slice(b"\\\\\\\\"),
                    b'"' => out.extend_from_slice(b"\\\\\""),
                    _ => out.push(b),
                }
            }
            out.extend_from_slice(b"\\\")");
        }
        Tree::Not(i) => {
            out.extend_from_slice(b"(!");
            render_with_fi(i, out);
            out.push(b')');
        }
        Tree::And(v) => {
            out.push(b'(');
            for (i, x) in v.iter().enumerate() {
                if i > 0 {
                    out.extend_from_slice(b" AND ");
                }
                render_with_fi(x, out);
            }
            out.push(b')');
        }
    }
}

pub fn check(case: &Case) -> CaseResult {
    let mut r = CaseResult::new();
    let (filter, mirror) = build(&case.spec);
    let mirror = mirror.flatten();
    let group = Tag::Album;
    let (cmd, idx) = match case.carrier {
        Carrier::Find => (Find::new(filter).command(), 1),
        Carrier::Count => (Count::new(filter).command(), 1),
        Carrier::CountGroupedFilter => (CountGrouped::new(group).filter(filter).command(), 1),
        Carrier::CountThenGroupBy => (Count::new(filter).group_by(group).command(), 1),
        Carrier::ListFilter => (List::new(Tag::Title).filter(filter).command(), 2),
        Carrier::ListFilterGrouped => (List::new(Tag::Title).filter(filter).group_by([Tag::Album, Tag::Artist]).command(), 2),
        Carrier::ListFilterTwice => (List::new(Tag::Title).filter(decoy()).filter(filter).command(), 2),
        Carrier::CountGroupedFilterTwice => (CountGrouped::new(group).filter(decoy()).filter(filter).command(), 1),
        Carrier::CountThenGroupByThenFilter => (Count::new(decoy()).group_by(group).filter(filter).command(), 1),
    };
    let bytes = match case.list {
        None | Some((0, 0)) => sent_bytes(cmd),
        Some((before, after)) => {
            // inside a command list: the filter must arrive as it would alone
            r.class("inside_command_list");
            let filler = |i: u8| mpd_protocol::Command::new("filler").argument(format!("n{i}  x"));
            let mut cmds: Vec<mpd_protocol::Command> = (0..before % 3).map(filler).collect();
            let idx = cmds.len();
            cmds.push(cmd);
            cmds.extend((0..after % 3).map(|i| filler(100 + i)));
            if cmds.len() == 1 {
                cmds.push(filler(7));
            }
            let mut it = cmds.into_iter();
            let mut list = mpd_protocol::CommandList::new(it.next().unwrap());
            for c in it {
                list.add(c);
            }
            let all = crate::cmdlab::sent_list_bytes(list);
            match mpdtok::split_lines(&all) {
                Ok(lines) if lines.len() > idx + 1 => {
                    let mut l = lines[idx + 1].to_vec();
                    l.push(b'\n');
                    l
                }
                other => {
                    r.fail(format!("command list with the filter command at position {idx} written as {:?} ({:?})", escape_bytes(&all), other.map(|l| l.len())));
                    return r;
                }
            }
        }
    };
    let line = &bytes[..bytes.len() - 1];

    let mut vals = Vec::new();
    values(&mirror, &mut vals);
    let special = vals.iter().any(|v| {
        v.is_empty() || v.iter().any(|b| *b <= 0x20 || b"\"'\\()!".contains(b) || *b >= 0x80) || v.windows(3).any(|w| w == b"AND")
    });
    let has_dquote = vals.iter().any(|v| v.contains(&b'"'));
    let (mut noa, mut aon, mut depth) = (false, false, 0);
    nesting(&mirror, false, false, &mut noa, &mut aon, 0, &mut depth);
    r.class_if(special, "special_value");
    r.class_if(has_dquote, "value_with_dquote");
    r.class_if(vals.iter().any(|v| v.contains(&b'\\')), "value_with_backslash");
    r.class_if(vals.iter().any(|v| v.contains(&b'\'')), "value_with_squote");
    r.class_if(vals.iter().any(|v| v.contains(&b'(') || v.contains(&b')')), "value_with_paren");
    r.class_if(noa, "not_over_and");
    r.class_if(aon, "and_over_not");
    r.class_if(depth >= 3, "depth_3plus");
    if special || noa || aon {
        r.nontrivial();
    }

    let verdict: Result<(), String> = (|| {
        let toks = mpdtok::tokenize(line).map_err(|e| format!("MPD's tokenizer rejects the line: {e:?}"))?;
        let arg = toks.get(idx).ok_or_else(|| format!("no argument {idx} in {} tokens", toks.len()))?;
        let tree = mpdfilter::parse(arg)
            .map_err(|e| format!("MPD's filter parser rejects {:?}: {e}", escape_bytes(arg)))?
            .flatten();
        if tree != mirror {
            return Err(format!("server-side expression {tree:?} differs from the one built {mirror:?}"));
        }
        Ok(())
    })();

    if let Err(e) = verdict {
        // exactly known finding F-I?
        let mut want_line: Vec<u8> = Vec::new();
        if has_dquote {
            // locate the filter argument text in the line: it is the only token starting with "(
            let mut fi = vec![b'"'];
            render_with_fi(&mirror, &mut fi);
            fi.push(b'"');
            want_line = fi;
        }
        let contains_fi = has_dquote && line.windows(want_line.len()).any(|w| w == want_line.as_slice());
        if contains_fi {
            r.known(
                "F-I",
                "filter value containing a double quote: each \" is rendered as \\\\\" so MPD's request tokenizer ends the argument there",
            );
        } else {
            r.fail(format!("{e}; line {:?}", escape_bytes(line)));
        }
    }
    r
}

fn tag_spec() -> impl Strategy<Value = TagSpec> {
    prop_oneof![
        5 => any::<u16>().prop_map(TagSpec::Named),
        1 => Just(TagSpec::Any),
        1 => "[A-Za-z][A-Za-z_-]{0,10}".prop_map(TagSpec::Other),
    ]
}

fn op() -> impl Strategy<Value = Op> {
    prop_oneof![Just(Op::Equal), Just(Op::NotEqual), Just(Op::Contains), Just(Op::Match), Just(Op::NotMatch)]
}

fn value_char() -> impl Strategy<Value = char> {
    prop_oneof![
        6 => class_char(),
        1 => Just('('),
        1 => Just(')'),
        1 => Just('!'),
        1 => Just('='),
    ]
}

pub fn filter_value(max: usize) -> impl Strategy<Value = String> {
    prop_oneof![
        1 => Just(String::new()),
        8 => prop::collection::vec(value_char(), 1..10usize).prop_map(|v| v.into_iter().collect::<String>()),
        1 => Just("(x) AND (y)".to_string()),
        1 => Just(" AND ".to_string()),
        1 => Just("\\".to_string()),
        1 => Just("^\\d+$".to_string()),
        1 => Just("it's".to_string()),
        1 => prop_oneof![Just("a  b"), Just("  "), Just(" lead"), Just("trail  "), Just("tab\t\tstop"), Just("a \t b")].prop_map(str::to_string),
        2 => prop::collection::vec(value_char(), 10..max.max(11)).prop_map(|v| v.into_iter().collect::<String>()),
    ]
}

fn leaf() -> impl Strategy<Value = FSpec> {
    prop_oneof![
        5 => (tag_spec(), op(), filter_value(300)).prop_map(|(tag, op, value)| FSpec::New { tag, op, value }),
        2 => (tag_spec(), filter_value(300)).prop_map(|(tag, value)| FSpec::TagEq { tag, value }),
        1 => tag_spec().prop_map(FSpec::Exists),
        1 => tag_spec().prop_map(FSpec::Absent),
    ]
}

pub fn fspec() -> impl Strategy<Value = FSpec> {
    leaf().prop_recursive(4, 64, 5, |inner| {
        prop_oneof![
            1 => inner.clone().prop_map(|f| FSpec::Negate(Box::new(f))),
            1 => inner.clone().prop_map(|f| FSpec::NotOp(Box::new(f))),
            3 => (inner.clone(), inner.clone()).prop_map(|(a, b)| FSpec::And(Box::new(a), Box::new(b))),
            // the same sub-filter used twice in one conjunction
            1 => inner.clone().prop_map(|a| FSpec::And(Box::new(a.clone()), Box::new(a))),
            1 => (inner.clone(), inner.clone()).prop_map(|(a, b)| FSpec::And(Box::new(FSpec::And(Box::new(a.clone()), Box::new(b))), Box::new(a))),
            // used (rendered / formatted / cloned / compared) before the next construction step
            2 => (1..16u8, inner).prop_map(|(how, f)| FSpec::Used { how, inner: Box::new(f) }),
        ]
    })
    .prop_flat_map(|f| {
        // now and then the whole expression (or one side of a conjunction) under a tall stack of
        // negations: counts on a logarithmic scale with +-1 around the powers of two
        prop_oneof![
            60 => Just(f.clone()),
            1 => ((1..=10u32), -1..=1i32, any::<bool>()).prop_map(move |(k, d, wrap)| {
                let n = ((1i32 << k) + d).clamp(1, 1100) as u16;
                let deep = FSpec::Deep { n, inner: Box::new(f.clone()) };
                if wrap {
                    FSpec::And(Box::new(deep), Box::new(FSpec::Exists(TagSpec::Any)))
                } else {
                    deep
                }
            }),
        ]
    })
}

fn carrier() -> impl Strategy<Value = Carrier> {
    prop_oneof![
        Just(Carrier::Find),
        Just(Carrier::Count),
        Just(Carrier::CountGroupedFilter),
        Just(Carrier::CountThenGroupBy),
        Just(Carrier::ListFilter),
        Just(Carrier::ListFilterGrouped),
        Just(Carrier::ListFilterTwice),
        Just(Carrier::CountGroupedFilterTwice),
        Just(Carrier::CountThenGroupByThenFilter),
    ]
}

const VALUE_ALPHABET: [&str; 11] = ["a", " ", "\t", "\u{1}", "\"", "'", "\\", "\u{e9}", "(", ")", "!"];

fn exhaustive(tier: Tier) -> Box<dyn Iterator<Item = Case>> {
    let max_len = tier.pick(3usize, 4usize);
    let k = VALUE_ALPHABET.len();
    let mut total = 0usize;
    let mut pow = 1usize;
    for _ in 0..=max_len {
        total += pow;
        pow *= k;
    }
    let ops = [Op::Equal, Op::NotEqual, Op::Contains, Op::Match, Op::NotMatch];
    Box::new((0..total).flat_map(move |mut idx| {
        let mut len = 0;
        let mut block = 1usize;
        while idx >= block {
            idx -= block;
            block *= k;
            len += 1;
        }
        let mut s = String::new();
        for _ in 0..len {
            s.push_str(VALUE_ALPHABET[idx % k]);
            idx /= k;
        }
        ops.into_iter().enumerate().map(move |(i, op)| {
            let leaf = FSpec::New { tag: TagSpec::Named((i * 9000) as u16), op, value: s.clone() };
            let spec = if i % 2 == 0 { leaf } else { FSpec::And(Box::new(FSpec::Negate(Box::new(leaf))), Box::new(FSpec::Exists(TagSpec::Any))) };
            Case { spec, carrier: Carrier::Find, list: None }
        })
    }))
}

pub fn property(_tier: Tier) -> Property {
    Property {
        id: "C11",
        level: "exploration",
        parts: vec![
            Box::new(ExhaustivePart {
                name: "exhaustive_values",
                rule: "every value of length <= 3 (thorough 4) over [a, space, tab, 0x01, dquote, squote, backslash, e-acute, '(', ')', '!'] x 5 operators, as a bare leaf or inside ((!leaf) AND (any != \"\")), carried by find; non-trivial = value empty or with a special character, or NOT/AND nesting",
                space: Box::new(exhaustive),
                check: Box::new(check),
            }),
            Box::new(RandomPart {
                name: "random_trees",
                rule: "proptest: trees of depth <= 4 built only through Filter::new/tag/tag_exists/tag_absent/negate/!/and over the 31 named tags, Tag::any() and valid unknown names, all 5 operators, values up to 300 chars over all special classes plus ( ) ! = AND; carried by Find, Count, CountGrouped::filter, Count::group_by, List::filter (+group_by), alone or (1 case in 4) inside a command list between other commands; tokenised and parsed by the MPD ports, compared with the mirror tree after flattening ANDs; same non-trivial rule; distinct by serialised case",
                cases: (100_000, 20_000_000),
                strategy: Box::new(|_t| (fspec(), carrier(), prop_oneof![3 => Just(None), 1 => (0..3u8, 0..3u8).prop_map(Some)]).prop_map(|(spec, carrier, list)| Case { spec, carrier, list }).boxed()),
                check: Box::new(check),
            }),
            crate::fuzzops::corpus_part("fuzz_corpus", "fz_cmd", "C11", crate::fuzzops::cmd_target),
        ],
        assumptions: vec![
            "vlib::mpdtok and vlib::mpdfilter are faithful ports of MPD's Tokenizer and SongFilter::ParseExpression (self-test vectors run first)",
            "values of 4096 bytes or more (rejected by MPD) and values with LF/NUL (rejected by the builder) are outside the domain",
        ],
        selftest: Some(|| {
            mpdtok::selftest()?;
            mpdfilter::selftest()
        }),
    }
}
