//! C13, part 2 — typed replies pair positionally: typed tuples / Vecs of probes and fixed mixes of
//! real commands through `Client::command_list` against the simulated MPD.

use mpd_client::commands::{self as c, Command as TypedCommand};
use proptest::prelude::*;

use crate::{
    core::{CaseResult, Part, RandomPart},
    props::{simgen, simprops},
    sim::{self, Outcome, Req, ReqState, Script, Step},
    streamlab::parse_all,
};

fn frame(bytes: &[u8]) -> mpd_protocol::response::Frame {
    let mut wire = bytes.to_vec();
    wire.extend_from_slice(b"OK\n");
    parse_all(&wire).expect("canned reply parses").pop().unwrap().into_single_frame().unwrap()
}

const STATUS: &[u8] = b"volume: 42\nrepeat: 0\nrandom: 1\nsingle: 0\nconsume: 0\nplaylist: 7\nplaylistlength: 3\nstate: stop\n";
const STATS: &[u8] = b"uptime: 5\nplaytime: 6\nartists: 11\nalbums: 12\nsongs: 13\ndb_playtime: 14\ndb_update: 15\n";
const CURRENT: &[u8] = b"file: cur.flac\nTitle: Current\nPos: 2\nId: 9\n";
const PLAYLISTS: &[u8] = b"playlist: pl\nLast-Modified: 2020-06-12T17:53:00Z\n";
const CHANNELS: &[u8] = b"channel: ch1\n";
const RG: &[u8] = b"replay_gain_mode: album\n";

/// What `MixedTuple(k)` must yield: every component decoded from the frame of *its own* command.
pub fn expected_mixed(k: u8) -> String {
    let status = || c::Status.response(frame(STATUS)).unwrap();
    let stats = || c::Stats.response(frame(STATS)).unwrap();
    let cur = || c::CurrentSong.response(frame(CURRENT)).unwrap();
    let pls = || c::GetPlaylists.response(frame(PLAYLISTS)).unwrap();
    let chans = || c::ListChannels.response(frame(CHANNELS)).unwrap();
    let rg = || c::ReplayGainStatus.response(frame(RG)).unwrap();
    match k % 5 {
        0 => format!("{:?}", (status(), stats())),
        1 => format!("{:?}", (stats(), status(), cur())),
        2 => format!("{:?}", (cur(), (), status(), stats())),
        3 => format!("{:?}", (chans(), pls(), rg(), stats(), status())),
        _ => format!("{:?}", ((), status(), (), stats(), cur(), chans(), rg(), pls())),
    }
}

pub fn check(script: &Script) -> CaseResult {
    let obs = sim::run(script);
    let mut r = simprops::judge_c01(script, &obs);
    if r.failed() {
        return r;
    }
    r.nontrivial = false;
    for (i, (_, req, state, _)) in obs.requests.iter().enumerate() {
        match (req, state) {
            (Req::MixedTuple(k), ReqState::Done(got)) => {
                r.class("mixed_real_commands");
                r.nontrivial();
                let want = Outcome::Mixed(expected_mixed(*k));
                if *got != want {
                    r.fail(format!("request {i}: typed tuple {k} resolved to {got:?}, expected every component from its own command's frame: {want:?}"));
                    return r;
                }
            }
            (Req::TypedTuple(t), ReqState::Done(_)) => {
                r.class("probe_tuple");
                if t.len() >= 2 {
                    r.nontrivial();
                }
            }
            (Req::TypedVec(t), ReqState::Done(got)) => {
                r.class("probe_vec");
                if t.is_empty() {
                    r.class("empty_vec");
                    r.nontrivial();
                    if *got != Outcome::Typed(Vec::new()) {
                        r.fail(format!("empty typed list resolved to {got:?}"));
                        return r;
                    }
                }
                if t.len() >= 2 {
                    r.nontrivial();
                }
            }
            _ => {}
        }
    }
    // an empty typed list writes nothing: nothing but idle/noidle/probe/list framing lines, which
    // judge_c01 and the server verdicts already cover; check the verdict list as well
    let v = simprops::judge_c05(script, &obs);
    if v.failed() {
        return v;
    }
    r
}

fn typed_issue() -> impl Strategy<Value = simgen::GenStep> {
    prop_oneof![
        4 => simgen::issue(3),
        3 => (0..3u8, prop::collection::vec(simgen::reply_spec(), 0..=12usize)).prop_map(|(caller, replies)| simgen::GenStep::Issue { caller, kind: 4, replies }),
        3 => (0..3u8, prop::collection::vec(simgen::reply_spec(), 1..=8usize)).prop_map(|(caller, replies)| simgen::GenStep::Issue { caller, kind: 3, replies }),
        3 => (0..3u8, 0..5u8).prop_map(|(caller, k)| simgen::GenStep::Plain(Step::Issue { caller, req: Req::MixedTuple(k) })),
    ]
}

/// An empty typed list on a connection that has ended: still nothing to send, still an empty result.
#[derive(Debug, Clone, serde::Serialize, serde::Deserialize)]
pub struct DeadCase {
    /// 0 peer closes while idle, 1 read error, 2 write error on the next write, 3 malformed line, 4 all
    /// other handles dropped first (the connection is alive, control)
    pub end: u8,
    /// a normal request before the end / a normal request after the end, before the empty list
    pub request_before: bool,
    pub request_after: bool,
    pub caller: u8,
    pub sched_seed: u64,
}

pub fn check_dead(case: &DeadCase) -> CaseResult {
    let mut r = CaseResult::new();
    r.nontrivial();
    let mut gen: Vec<simgen::GenStep> = Vec::new();
    let ok = |tok_fields: usize| sim::ReplySpec::Ok { fields: (0..tok_fields).map(|i| (format!("k{i}"), "v".to_string())).collect(), binary: None };
    if case.request_before {
        gen.push(simgen::GenStep::Issue { caller: case.caller, kind: 0, replies: vec![ok(1)] });
    }
    let fault = match case.end % 5 {
        0 => Some(sim::Fault::EofAfter(0)),
        1 => Some(sim::Fault::ReadErrorAfter(0)),
        2 => Some(sim::Fault::WriteErrorAfter(0)),
        3 => Some(sim::Fault::Garbage(crate::core::B::from("foo bar"))),
        _ => None,
    };
    if let Some(f) = fault {
        gen.push(simgen::GenStep::Plain(Step::Fault(f)));
    }
    gen.push(simgen::GenStep::Plain(Step::Change(vec!["player".into()])));
    gen.push(simgen::GenStep::Plain(Step::Advance(150)));
    if case.request_after {
        gen.push(simgen::GenStep::Issue { caller: case.caller ^ 1, kind: 0, replies: vec![ok(0)] });
    }
    // kind 4 = typed Vec of probes; no replies = the empty Vec
    gen.push(simgen::GenStep::Issue { caller: case.caller, kind: 4, replies: Vec::new() });
    gen.push(simgen::GenStep::Plain(Step::Advance(150)));
    gen.push(simgen::GenStep::Issue { caller: case.caller, kind: 4, replies: Vec::new() });
    let script = simgen::assemble(case.sched_seed, sim::SegPattern::Whole, None, gen);
    let obs = sim::run(&script);
    r.class(["peer_closed", "read_error", "write_error", "malformed_line", "connection_alive"][case.end as usize % 5]);
    for (i, (_, req, state, _)) in obs.requests.iter().enumerate() {
        if let Req::TypedVec(t) = req {
            if t.is_empty() && *state != ReqState::Done(Outcome::Typed(Vec::new())) {
                r.fail(format!(
                    "request {i}: the empty typed list resolved to {state:?} on a connection in state {:?} (client reports closed: {:?}); an empty list sends nothing and yields an empty result",
                    ["peer closed", "read error", "write error", "malformed line", "alive"][case.end as usize % 5],
                    obs.is_closed
                ));
                return r;
            }
        }
    }
    r
}

pub fn dead_part() -> Box<dyn Part> {
    Box::new(crate::core::ExhaustivePart {
        name: "empty_list_on_ended_connection",
        rule: "every combination of: how the connection ended before (peer closed while idle / read error / write error / malformed line / still alive) x a normal request before the end or not x a normal request after it or not x two callers x 4 select! seeds; then the empty typed Vec is issued twice: it must resolve to an empty result every time (nothing is sent, so there is nothing that could fail). non-trivial = every case",
        space: Box::new(|_t| {
            Box::new((0..5u8).flat_map(|end| {
                [false, true].into_iter().flat_map(move |request_before| {
                    [false, true].into_iter().flat_map(move |request_after| (0..2u8).flat_map(move |caller| (1..5u64).map(move |sched_seed| DeadCase { end, request_before, request_after, caller, sched_seed })))
                })
            }))
        }),
        check: Box::new(check_dead),
    })
}

pub fn part() -> Box<dyn Part> {
    Box::new(RandomPart {
        name: "typed_pairing_sim",
        rule: "proptest: 1-8 steps of typed tuples (arity 1-8) and Vecs (length 0-12) of probe commands whose reply identifies the command (some answering ACK at a generated position), fixed mixed tuples of real commands (Status, Stats, CurrentSong, GetPlaylists, ListChannels, ReplayGainStatus, Ping) with distinguishable canned replies, interleaved with notifications and timer advances, any segmentation and partial writes, sent through Client::command_list against the simulated MPD; result i must be decoded from the frame of command i; the empty Vec must resolve to an empty result; the server must raise no framing verdict. non-trivial = list of >=2, the empty list, or a mixed tuple",
        cases: (30_000, 1_000_000),
        strategy: Box::new(|_t| {
            (
                any::<u64>(),
                simgen::seg_pattern(),
                prop_oneof![3 => Just(None), 1 => (1..12usize).prop_map(Some)],
                prop::collection::vec(
                    prop_oneof![
                        12 => typed_issue().prop_map(|s| vec![s]),
                        2 => simgen::change_names(2).prop_map(|n| vec![simgen::GenStep::Plain(Step::Change(n))]),
                        2 => simgen::advance().prop_map(|s| vec![simgen::GenStep::Plain(s)]),
                        // a typed list whose reply takes minutes, the next list right behind it
                        1 => (simgen::slow_reply_block_of(typed_issue().boxed()), typed_issue()).prop_map(|(mut b, next)| {
                            b.push(next);
                            b
                        }),
                    ],
                    1..=8usize,
                ),
            )
                .prop_map(|(seed, seg, mw, gen)| simgen::assemble(seed, seg, mw, gen.into_iter().flatten().collect()))
                .boxed()
        }),
        check: Box::new(check),
    })
}
