//! C08 — when the connection ends, every request resolves and the failure is reported.
//! Fault injection over the session simulator; invariants E1-E7 of DESIGN.md.

use std::collections::HashMap;

use proptest::prelude::*;
use serde::{Deserialize, Serialize};

use crate::{
    core::{CaseResult, Property, RandomPart, Tier},
    props::{
        simgen,
        simprops::{expected_outcome, flatten, tokens_of},
    },
    refdec,
    sim::{self, Ev, Fault, Observation, Outcome, ReplySpec, Req, ReqState, Script, Step, Tx},
    streamlab::Terminal,
};

fn short(o: &impl std::fmt::Debug) -> String {
    format!("{o:?}").chars().take(400).collect()
}

pub fn judge(script: &Script, obs: &Observation) -> CaseResult {
    let mut r = CaseResult::new();
    if let Some(e) = &obs.connect_error {
        r.fail(format!("connect failed on a valid greeting: {e}"));
        return r;
    }
    if obs.panics > 0 {
        r.fail(format!("{} panic(s) inside the client: {:?}", obs.panics, crate::core::last_panic()));
        return r;
    }
    if obs.poll_bound_exceeded {
        r.fail("the client keeps polling the transport without bound after the fault (busy loop)");
        return r;
    }
    let flat = flatten(&script.steps);
    let fault = flat.iter().find_map(|s| match s {
        Step::Fault(f) => Some(f.clone()),
        _ => None,
    });
    let garbage_struck = obs.garbage_at.is_some_and(|(start, _)| obs.final_read_pos > start);
    let struck = obs.eof_seen || obs.read_err_seen || obs.write_err_seen || obs.broken_pipe_seen || garbage_struck;
    // is the end of stream on a response boundary?
    let eof_clean = obs.eof_at.is_none_or(|k| {
        let k = k.min(obs.outbox.len());
        k >= script.greeting_len() && refdec::decode(&obs.outbox[script.greeting_len()..k]).terminal == vec![Terminal::CleanEof]
    });
    let non_clean = obs.read_err_seen || obs.write_err_seen || garbage_struck || (obs.eof_seen && !eof_clean);
    if let Some(Fault::Garbage(g)) = &fault {
        let mut l = g.0.clone();
        l.push(b'\n');
        if !refdec::decode(&l).malformed {
            r.class("garbage_not_malformed_skipped");
            return r;
        }
    }
    r.class(match &fault {
        Some(Fault::EofAt(_)) | Some(Fault::EofAfter(_)) => "fault_eof",
        Some(Fault::ReadErrorAfter(_)) => "fault_read_error",
        Some(Fault::WriteErrorAfter(_)) => "fault_write_error",
        Some(Fault::WriteZeroAfter(_)) => "fault_write_accepts_nothing",
        Some(Fault::WriteInterruptedOnce { .. }) => "fault_transient_write_error",
        Some(Fault::Garbage(_)) => "fault_garbage",
        None => "last_handle_dropped",
    });
    r.class_if(struck, "fault_struck");
    r.class_if(obs.eof_seen && eof_clean, "eof_on_boundary");
    r.class_if(obs.eof_seen && !eof_clean, "eof_inside_response");
    r.class_if(obs.broken_pipe_seen, "write_after_close_failed");
    r.class_if(obs.events_dropped, "event_receiver_dropped_first");

    let replies: HashMap<String, ReplySpec> = script.replies.iter().cloned().collect();
    // token -> request index
    let mut owner: HashMap<String, usize> = HashMap::new();
    for (i, (_, req, _, _)) in obs.requests.iter().enumerate() {
        for t in tokens_of(req) {
            owner.insert(t, i);
        }
    }
    // reply extent per request
    let mut extent: HashMap<usize, (usize, usize)> = HashMap::new();
    for t in &obs.transcript {
        if let Tx::Reply { tokens, start, end, .. } = t {
            if let Some(i) = tokens.first().and_then(|t| owner.get(t)) {
                extent.insert(*i, (*start, *end));
            }
        }
    }
    let pos = obs.final_read_pos;
    let mut any_protocol = false;
    let mut partly_delivered = false;
    for (i, (caller, req, state, _)) in obs.requests.iter().enumerate() {
        let got = match state {
            ReqState::Cancelled => continue,
            // E1
            ReqState::Hung => {
                r.fail(format!("E1: request {i} ({req:?}) of caller {caller} never resolves after the connection ended"));
                return r;
            }
            ReqState::Panicked => {
                r.fail(format!("request {i} panicked"));
                return r;
            }
            ReqState::Done(o) => o,
        };
        if matches!(got, Outcome::Protocol(_)) {
            any_protocol = true;
        }
        let is_empty_vec = matches!(req, Req::TypedVec(t) if t.is_empty());
        let delivered = extent.get(&i).copied();
        // bytes behind an injected malformed line never reach the parser as a reply
        let delivered = delivered.filter(|(start, _)| obs.garbage_at.is_none_or(|(gs, _)| *start < gs));
        match delivered {
            // E2: reply completely received
            Some((_, end)) if end <= pos => {
                let want = expected_outcome(&replies, req).expect("token request");
                if *got != want {
                    r.fail(format!("E2: request {i} ({req:?}): its reply was completely received but it resolved to {}, expected {}", short(got), short(&want)));
                    return r;
                }
            }
            _ if is_empty_vec => {
                if *got != Outcome::Typed(Vec::new()) {
                    r.fail(format!("empty typed list resolved to {}", short(got)));
                    return r;
                }
            }
            // E3: everything else is an error
            other => {
                if !matches!(got, Outcome::ConnectionClosed | Outcome::Protocol(_)) {
                    r.fail(format!(
                        "E3: request {i} ({req:?}) resolved to {} although its reply was not completely received (reply bytes {other:?}, client read up to {pos})",
                        short(got)
                    ));
                    return r;
                }
                // E6 (strict): request written, reply partly delivered => that caller is told
                if let Some((start, end)) = other {
                    if start < pos && pos < end {
                        partly_delivered = true;
                        if !matches!(got, Outcome::Protocol(_)) {
                            r.fail(format!(
                                "E6: request {i} ({req:?}) was in flight with {} of {} reply bytes received when the stream broke, but its caller got {} instead of a protocol error",
                                pos - start,
                                end - start,
                                short(got)
                            ));
                            return r;
                        }
                    }
                }
            }
        }
    }
    r.class_if(partly_delivered, "reply_partly_delivered");

    // E4
    if struck {
        if let Some(false) = obs.is_closed {
            r.fail("E4: the connection ended but a retained client handle does not report is_connection_closed()");
            return r;
        }
    }
    // E8: whatever the reason, once a caller has been told that the connection itself failed the
    // client must not go on as if nothing had happened
    if let (true, Some(false)) = (any_protocol, obs.is_closed) {
        r.fail(format!(
            "E8: a caller was told that the connection failed ({}) but a retained client handle still reports the connection open",
            short(&obs.requests.iter().map(|(_, _, s, _)| s).collect::<Vec<_>>())
        ));
        return r;
    }
    // E5
    let closed: Vec<usize> = obs.events.iter().enumerate().filter(|(_, e)| matches!(e, Ev::Closed(_))).map(|(i, _)| i).collect();
    if closed.len() > 1 {
        r.fail(format!("E5: {} closing events delivered: {:?}", closed.len(), obs.events));
        return r;
    }
    if let Some(i) = closed.first() {
        if *i + 1 != obs.events.len() {
            r.fail(format!("E5: events after the closing event: {:?}", obs.events));
            return r;
        }
    }
    if !obs.events_dropped && !obs.events_ended {
        r.fail("E5/E7: the event stream never ends although the connection ended and every handle was dropped (background task still alive)");
        return r;
    }
    // E6 (general)
    // (if the caller in flight has cancelled, there is nobody left to tell)
    let any_cancelled = obs.requests.iter().any(|(_, _, st, _)| *st == ReqState::Cancelled);
    if non_clean && !obs.events_dropped && !any_protocol && closed.is_empty() && !any_cancelled {
        r.fail(format!(
            "E6: the connection broke ({}) but neither a caller got a protocol error nor was a closing event delivered; outcomes: {}",
            if obs.read_err_seen {
                "read error"
            } else if obs.write_err_seen {
                "write error"
            } else if garbage_struck {
                "malformed data"
            } else {
                "end of stream inside a response"
            },
            short(&obs.requests.iter().map(|(_, _, s, _)| s).collect::<Vec<_>>())
        ));
        return r;
    }
    // E7: once every handle is gone the transport is released; without a fault no closing event
    if !obs.io_dropped {
        r.fail("E7: every client handle was dropped and all requests resolved, but the transport object is still held");
        return r;
    }
    if !struck && !closed.is_empty() {
        r.fail(format!("E7: closing event {:?} although nothing went wrong (handles were merely dropped)", obs.events.last()));
        return r;
    }
    let pending_before = obs
        .fault_step
        .and_then(|fs| obs.quiescent.iter().rev().find(|q| q.after_step < fs))
        .map_or(0, |q| q.pending_requests);
    r.class_if(pending_before >= 1, "requests_pending_at_fault");
    r.class_if(pending_before >= 2, "requests_queued_behind_in_flight");
    if struck && (pending_before >= 1 || partly_delivered || (obs.eof_seen && !eof_clean)) || (fault.is_none() && !obs.requests.is_empty()) {
        r.nontrivial();
    }
    r
}

/// thorough: for a generated script, move the EOF to every byte offset of the server's output
fn offsets_part() -> Box<dyn crate::core::Part> {
    Box::new(RandomPart {
        name: "every_eof_offset",
        rule: "proptest: fault-free script of C01's shape with 1-6 steps; run once to learn the server's output length N, then re-run with the peer closing at EVERY absolute offset 14..=N (and a read error at every 4th), and with every write from the k-th on failing for EVERY k; E1-E7 on each run. 'executions' counts runs; non-trivial = some run ended inside a response with a request pending",
        cases: (150, 6_000),
        strategy: Box::new(|_t| simgen::script(2, 2, 6).prop_filter("no holds", |s| !flatten(&s.steps).iter().any(|x| matches!(x, Step::Hold | Step::Cancel(_)))).boxed()),
        check: Box::new(|base: &Script| {
            let mut r = CaseResult::new();
            let first = sim::run(base);
            let n = first.outbox.len().min(3000);
            let mut execs = 1;
            for k in base.greeting_len()..=n {
                for read_err in [false, true] {
                    if read_err && k % 4 != 0 {
                        continue;
                    }
                    let mut s = base.clone();
                    let f = if read_err { Fault::ReadErrorAfter(k - base.greeting_len()) } else { Fault::EofAt(k) };
                    s.steps.insert(0, Step::Fault(f));
                    let obs = sim::run(&s);
                    execs += 1;
                    let j = judge(&s, &obs);
                    if j.failed() {
                        let mut j = j;
                        if let crate::core::Outcome::Fail(m) = &j.outcome {
                            j.outcome = crate::core::Outcome::Fail(format!("with the stream cut at byte {k} ({}): {m}", if read_err { "read error" } else { "EOF" }));
                        }
                        j.execs = execs;
                        return j;
                    }
                    if j.nontrivial {
                        r.nontrivial();
                    }
                    for c in j.classes {
                        r.class(c);
                    }
                }
            }
            // and a persistent write error from the k-th write on, for every k
            let writes = first.transcript.iter().filter(|t| matches!(t, Tx::Line { .. })).count() + 2;
            for k in 0..writes {
                let mut s = base.clone();
                s.steps.insert(0, Step::Fault(Fault::WriteErrorAfter(k)));
                let obs = sim::run(&s);
                execs += 1;
                let j = judge(&s, &obs);
                if j.failed() {
                    let mut j = j;
                    if let crate::core::Outcome::Fail(m) = &j.outcome {
                        j.outcome = crate::core::Outcome::Fail(format!("with every write from the {k}-th on failing: {m}"));
                    }
                    j.execs = execs;
                    return j;
                }
                if j.nontrivial {
                    r.nontrivial();
                }
                for c in j.classes {
                    r.class(c);
                }
            }
            r.execs = execs;
            r
        }),
    })
}

/// A fault-free session in which one reply contains a single enormous line.
#[derive(Debug, Clone, Serialize, Deserialize)]
pub struct Giant {
    pub line_bytes: usize,
    pub chunk: usize,
}

fn giant_part() -> Box<dyn crate::core::Part> {
    Box::new(crate::core::ExhaustivePart {
        name: "giant_reply",
        rule: "fault-free session: a request whose reply holds one value of 1.25 MiB / 20 MiB (thorough: + 40 MiB, 80 MiB), then a small request; server output readable at once or in 60000-byte pieces. Both callers must get their replies (C01's judge) and E1-E8 must hold (in particular: nobody is told the connection failed while the client carries on)",
        space: Box::new(|t: Tier| {
            let mut sizes = vec![(1usize << 20) * 5 / 4, (16 << 20) * 5 / 4];
            if t == Tier::Thorough {
                sizes.extend([(32 << 20) * 5 / 4, (64 << 20) * 5 / 4]);
            }
            Box::new(sizes.into_iter().flat_map(|line_bytes| [0usize, 60_000].into_iter().map(move |chunk| Giant { line_bytes, chunk })))
        }),
        check: Box::new(|g: &Giant| {
            let mut s = Script::new(vec![
                Step::Issue { caller: 0, req: sim::Req::Raw("r0x0".into()) },
                Step::Issue { caller: 1, req: sim::Req::Raw("r1x0".into()) },
            ]);
            s.replies = vec![
                ("r0x0".to_string(), ReplySpec::Ok { fields: vec![("big".to_string(), "v".repeat(g.line_bytes))], binary: None }),
                ("r1x0".to_string(), ReplySpec::Ok { fields: vec![], binary: None }),
            ];
            if g.chunk > 0 {
                s.seg = sim::SegPattern::Chunk(g.chunk);
            }
            let obs = sim::run(&s);
            let j = crate::props::simprops::judge_c01(&s, &obs);
            if j.failed() {
                return j;
            }
            let mut r = judge(&s, &obs);
            r.nontrivial();
            r.classes.clear();
            r.class(if g.line_bytes > (16 << 20) { "line_over_16MiB" } else { "line_up_to_16MiB" });
            r
        }),
    })
}

pub fn property(_tier: Tier) -> Property {
    Property {
        id: "C08",
        level: "fault_enumeration",
        parts: vec![
            Box::new(RandomPart {
                name: "one_fault",
                rule: "proptest: history of C01's shape (0-10 steps/blocks), then 0-4 requests issued (optionally with reply bytes on hold), then exactly one fault - peer closes now / after k more bytes (0-6000) / read error after k bytes / the n-th next write fails / a definitely malformed line is injected - or every client handle is dropped (optionally the event receiver first); then 0-4 later requests/advances; writes after a peer close fail with BrokenPipe or succeed silently. Judged by E1 every request resolves (virtual 1 h bound), E2 completely received reply => that reply, E3 otherwise ConnectionClosed/Protocol, E4 is_connection_closed, E5 event stream ends, at most one closing event and it is last, E6 non-clean failure surfaced (strictly: to the caller whose reply was partly delivered), E7 transport released after the last handle is gone, no closing event without a failure, E8 a caller told that the connection failed => the client reports itself closed. non-trivial = fault struck with a request pending / inside a response, or handles dropped with requests issued",
                cases: (60_000, 3_000_000),
                strategy: Box::new(|_t| simgen::faulty_script().boxed()),
                check: Box::new(|s: &Script| {
                    let obs = sim::run(s);
                    judge(s, &obs)
                }),
            }),
            offsets_part(),
            giant_part(),
            crate::fuzzops::corpus_part("fuzz_corpus", "fz_sim", "C08", crate::fuzzops::sim_target),
        ],
        assumptions: vec![
            "as C01; 'never resolves' means: not within one virtual hour after the script's end with a paused clock",
            "a clean close is an end of stream on a response boundary of the server's output (judged by the reference decoder)",
        ],
        selftest: Some(refdec::selftest),
    }
}
