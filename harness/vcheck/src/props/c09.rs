//! C09 — arbitrary peer bytes never panic or hang the protocol layer; malformed lines are
//! InvalidMessage, never data. Oracle: reference decoder + read bound + catch_unwind.

use proptest::prelude::*;
use serde::{Deserialize, Serialize};

use crate::{
    core::{CaseResult, Property, RandomPart, Tier, B},
    props::c02::{apply, corruption, edge_line, Corr},
    refdec::{self, Greeting},
    seg::{seg_strategy, Seg},
    streamlab::{eof, run, Flavour, Terminal, FLAVOURS, GREETING},
    wire::{self, AResp},
};

#[derive(Debug, Clone, Serialize, Deserialize)]
pub enum Source {
    Raw(B),
    /// LF-joined lines; `terminated` = last line gets its LF too
    Lines { lines: Vec<B>, terminated: bool },
    Mutated { resps: Vec<AResp>, corrs: Vec<Corr> },
}

#[derive(Debug, Clone, Serialize, Deserialize)]
pub struct Case {
    pub src: Source,
    pub seg: Seg,
    pub flavour: Flavour,
}

pub fn stream_of(src: &Source) -> Vec<u8> {
    match src {
        Source::Raw(b) => b.0.clone(),
        Source::Lines { lines, terminated } => {
            let mut out = Vec::new();
            for (i, l) in lines.iter().enumerate() {
                out.extend_from_slice(l);
                if i + 1 < lines.len() || *terminated {
                    out.push(b'\n');
                }
            }
            out
        }
        Source::Mutated { resps, corrs } => {
            let mut s = wire::encode(resps).bytes;
            for c in corrs {
                s = apply(s, c);
            }
            s
        }
    }
}

/// The oracle proper, shared with the libFuzzer target.
pub fn judge(stream: &[u8], seg: &Seg, flavour: Flavour) -> Result<(refdec::Decoded, usize), String> {
    let obs = run(flavour, GREETING, stream, seg, 2);
    let dec = refdec::decode(stream);
    match &obs.terminal {
        Terminal::Panic(p) => return Err(format!("receive panicked: {p}")),
        Terminal::ReadBoundExceeded => {
            return Err(format!("more than bytes+chunks+64 reads ({}) for {} bytes: the read loop does not terminate", obs.reads, stream.len()))
        }
        Terminal::NoProgress => return Err("receive keeps returning responses without consuming input".into()),
        _ => {}
    }
    if let Some(p) = &obs.after_terminal_panic {
        return Err(format!("receive called again after {:?} panicked: {p}", obs.terminal));
    }
    if let Some(m) = &obs.accessor_mismatch {
        return Err(m.clone());
    }
    for (i, want) in dec.responses.iter().enumerate() {
        match obs.responses.get(i) {
            Some(got) if got == want => {}
            Some(got) => {
                return Err(format!(
                    "response {i}: connection returned {} but the bytes say {}",
                    format!("{got:?}").chars().take(500).collect::<String>(),
                    format!("{want:?}").chars().take(500).collect::<String>()
                ))
            }
            None => return Err(format!("response {i} missing, terminal {:?} (reference: {:?})", obs.terminal, dec.terminal)),
        }
    }
    if obs.responses.len() > dec.responses.len() {
        return Err(format!(
            "fabricated data: {} responses returned, the bytes hold {} (then {:?}); extra: {}",
            obs.responses.len(),
            dec.responses.len(),
            dec.terminal,
            format!("{:?}", obs.responses[dec.responses.len()]).chars().take(400).collect::<String>()
        ));
    }
    if !dec.terminal.contains(&obs.terminal) {
        return Err(format!("terminal outcome {:?}, acceptable per the grammar: {:?}", obs.terminal, dec.terminal));
    }
    Ok((dec, obs.reads))
}

pub fn check(case: &Case) -> CaseResult {
    let mut r = CaseResult::new();
    let stream = stream_of(&case.src);
    r.class(match case.src {
        Source::Raw(_) => "raw_bytes",
        Source::Lines { .. } => "edge_lines",
        Source::Mutated { .. } => "mutated_encoder_output",
    });
    // byte-sized reads over streams beyond 30 KB only cost time
    let seg = if stream.len() > 30_000 && matches!(case.seg, Seg::OneByte | Seg::Chunk(0..=63)) { Seg::Chunk(997) } else { case.seg.clone() };
    match judge(&stream, &seg, case.flavour) {
        Err(e) => r.fail(e),
        Ok((dec, _)) => {
            r.class_if(dec.malformed, "malformed_line");
            r.class_if(dec.terminal == vec![Terminal::Invalid], "ends_invalid");
            r.class_if(dec.terminal == vec![eof()], "ends_unexpected_eof");
            r.class_if(dec.terminal.len() == 2, "ends_in_unterminated_tail");
            r.class_if(dec.terminal == vec![Terminal::CleanEof], "ends_clean");
            r.class_if(!dec.responses.is_empty(), "some_response");
            if dec.complete_valid_lines >= 1 && dec.terminal != vec![Terminal::CleanEof] {
                r.nontrivial();
            }
        }
    }
    r
}

#[derive(Debug, Clone, Serialize, Deserialize)]
pub struct ConnectCase {
    pub bytes: B,
    pub seg: Seg,
    pub flavour: Flavour,
}

pub fn judge_connect(bytes: &[u8], seg: &Seg, flavour: Flavour) -> Result<Greeting, String> {
    // the bytes play the role of the greeting; nothing follows
    let want = refdec::classify_greeting(bytes);
    // the segmentation applies to the greeting bytes themselves (offsets from the first byte)
    let obs = run(flavour, b"", bytes, seg, 1);
    match &obs.terminal {
        Terminal::Panic(p) => return Err(format!("panicked: {p}")),
        Terminal::ReadBoundExceeded => return Err("read loop does not terminate".into()),
        _ => {}
    }
    if let Some(p) = &obs.after_terminal_panic {
        return Err(format!("receive after the terminal outcome panicked: {p}"));
    }
    match &want {
        Greeting::Valid(v, _) => {
            if obs.version.as_deref() != Some(v.as_str()) {
                return Err(format!("valid greeting: version {:?}, terminal {:?}; expected version {v:?}", obs.version, obs.terminal));
            }
        }
        Greeting::Invalid => {
            if obs.version.is_some() || obs.terminal != Terminal::Invalid {
                return Err(format!("malformed greeting accepted or misreported: version {:?}, {:?}", obs.version, obs.terminal));
            }
        }
        Greeting::UnexpectedEof => {
            if obs.version.is_some() || obs.terminal != eof() {
                return Err(format!("truncated greeting: version {:?}, {:?}; expected UnexpectedEof", obs.version, obs.terminal));
            }
        }
        Greeting::InvalidOrEof => {
            if obs.version.is_some() || !(obs.terminal == eof() || obs.terminal == Terminal::Invalid) {
                return Err(format!("mismatching unterminated greeting: version {:?}, {:?}", obs.version, obs.terminal));
            }
        }
    }
    Ok(want)
}

pub fn check_connect(case: &ConnectCase) -> CaseResult {
    let mut r = CaseResult::new();
    match judge_connect(&case.bytes, &case.seg, case.flavour) {
        Err(e) => r.fail(e),
        Ok(g) => {
            r.class(match g {
                Greeting::Valid(..) => "valid",
                Greeting::Invalid => "invalid_line",
                Greeting::UnexpectedEof => "truncated_viable",
                Greeting::InvalidOrEof => "truncated_mismatching",
            });
            if !matches!(g, Greeting::Valid(..)) && !case.bytes.is_empty() {
                r.nontrivial();
            }
        }
    }
    r
}

fn valid_line() -> impl Strategy<Value = B> {
    prop_oneof![
        4 => (wire::key(), wire::value(300)).prop_map(|(k, v)| B(format!("{k}: {v}").into_bytes())),
        2 => Just(B::from("OK")),
        1 => Just(B::from("list_OK")),
        1 => wire::ack().prop_map(|a| {
            let mut l = a.line();
            l.pop();
            B(l)
        }),
        1 => Just(B::from("binary: 2\nab")),
        1 => Just(B::from("binary: 0\n")),
    ]
}

pub fn source(tier: Tier) -> impl Strategy<Value = Source> {
    let max_payload = tier.pick(9_000, 20_000);
    prop_oneof![
        2 => prop::collection::vec(any::<u8>(), 0..200usize).prop_map(|v| Source::Raw(B(v))),
        1 => prop::collection::vec((0..20usize, any::<u8>()).prop_map(|(i, x)| *b"\n\n\nOOKK::  a1lbiAC\0".get(i).unwrap_or(&x)), 0..60usize)
            .prop_map(|v| Source::Raw(B(v))),
        5 => (prop::collection::vec(prop_oneof![3 => valid_line(), 2 => edge_line()], 1..8usize), prop::bool::weighted(0.8))
            .prop_map(|(lines, terminated)| Source::Lines { lines, terminated }),
        5 => (
            prop_oneof![8 => wire::responses(4, 200, 200), 2 => wire::responses(3, max_payload, 5_000), 1 => wire::responses_maybe_huge(2, max_payload, 300, 2)],
            prop::collection::vec(corruption(), 0..3usize)
        )
            .prop_map(|(resps, corrs)| Source::Mutated { resps, corrs }),
    ]
}

fn strategy(tier: Tier) -> BoxedStrategy<Case> {
    (source(tier), seg_strategy(3000), prop_oneof![3 => 0..3usize, 1 => 3..5usize].prop_map(|i| crate::streamlab::ALL_FLAVOURS[i]))
        .prop_map(|(src, seg, flavour)| Case { src, seg, flavour })
        .boxed()
}

fn greeting_bytes() -> impl Strategy<Value = B> {
    prop_oneof![
        3 => "[^\\n]{1,30}".prop_map(|v| B(format!("OK MPD {v}\n").into_bytes())),
        2 => ("[^\\n]{0,30}", 0..40usize).prop_map(|(v, cut)| {
            let mut b = format!("OK MPD {v}\n").into_bytes();
            b.truncate(cut.min(b.len()));
            B(b)
        }),
        2 => (any::<u16>(), any::<u8>()).prop_map(|(at, x)| {
            let mut b = b"OK MPD 0.23.5\n".to_vec();
            let i = crate::core::pick_idx(at, b.len());
            b[i] ^= x.max(1);
            B(b)
        }),
        1 => Just(B::from("OK MPD \n")),
        1 => Just(B(b"OK MPD \xff\xfe\n".to_vec())),
        1 => Just(B(b"OK MPD 0.2\xc3".to_vec())),
        1 => Just(B::from("\n")),
        1 => Just(B::from("OK\n")),
        1 => Just(B::from("ACK [5@0] {} nope\n")),
        2 => prop::collection::vec(any::<u8>(), 0..40usize).prop_map(B),
        1 => "[^\\n]{4090,4100}".prop_map(|v| B(format!("OK MPD {v}\n").into_bytes())),
        1 => "[a-z]{9000,9100}".prop_map(|v| B(v.into_bytes())),
    ]
}

#[derive(Debug, Clone, Serialize, Deserialize)]
pub struct ManyNames {
    pub lines: usize,
    pub flavour: Flavour,
    /// 0: as much as the receive buffer takes per read
    pub chunk: usize,
}

fn check_many_names(case: &ManyNames) -> CaseResult {
    let mut r = CaseResult::new();
    r.nontrivial();
    let mut stream = Vec::with_capacity(case.lines * 12 + 16);
    let c = |d: usize| (b'a' + (d % 26) as u8) as char;
    for i in 0..case.lines {
        stream.extend_from_slice(format!("k{}{}{}{}{}: {}\n", c(i / 456_976), c(i / 17_576), c(i / 676), c(i / 26), c(i), i % 10).as_bytes());
    }
    stream.extend_from_slice(b"OK\nz: y\nOK\n");
    let seg = if case.chunk == 0 { Seg::Whole } else { Seg::Chunk(case.chunk) };
    // the receive runs on a helper thread: if it does not come back the run is inconclusive
    let (tx, rx) = std::sync::mpsc::channel();
    let (flavour, lines) = (case.flavour, case.lines);
    std::thread::spawn(move || {
        let obs = crate::core::catch(|| run(flavour, GREETING, &stream, &seg, 0));
        let _ = tx.send(obs);
    });
    let obs = match rx.recv_timeout(std::time::Duration::from_secs(240)) {
        Ok(Ok(o)) => o,
        Ok(Err(p)) => {
            r.fail(format!("response with {lines} distinct field names, {flavour:?}: panic {p}"));
            return r;
        }
        Err(_) => {
            println!("WATCHDOG: receive of a response with {lines} distinct field names ({flavour:?}, chunk {}) did not return within 240 s wall clock; inconclusive", case.chunk);
            std::process::exit(2);
        }
    };
    let ok = obs.responses.len() == 2
        && obs.responses[0].frames.len() == 1
        && obs.responses[0].frames[0].fields.len() == lines
        && obs.responses[0].frames[0].fields.last().is_some_and(|(k, _)| k.len() == 6)
        && obs.responses[1].frames.len() == 1
        && obs.responses[1].frames[0].fields == vec![("z".to_string(), "y".to_string())]
        && obs.terminal == Terminal::CleanEof;
    if !ok {
        r.fail(format!(
            "response with {lines} distinct field names + a small one, {flavour:?}/{:?}: {} response(s), first has {} field(s), terminal {:?}",
            case.chunk,
            obs.responses.len(),
            obs.responses.first().and_then(|x| x.frames.first()).map_or(0, |f| f.fields.len()),
            obs.terminal
        ));
    }
    r
}

pub fn property(_tier: Tier) -> Property {
    Property {
        id: "C09",
        level: "exploration",
        parts: vec![
            Box::new(RandomPart {
                name: "receive",
                rule: "proptest: stream = random bytes | 1-7 lines mixing valid lines with a dictionary of edge lines (absurd/overlong/leading-zero numbers, binary: with non-numeric or 2^64 length, invalid UTF-8, NUL, CR, bare ACK, 'OK ' ...), last line optionally unterminated | encoder output with 0-2 corruptions; one generated segmentation; blocking/async/async+pending. Oracle: no panic, reads <= bytes+chunks+64, responses equal to the reference decoder's, terminal outcome in its acceptable set, two further receive calls return. non-trivial = >=1 complete valid line and a non-clean end; distinct by serialised case",
                cases: (60_000, 2_000_000),
                strategy: Box::new(strategy),
                check: Box::new(check),
            }),
            Box::new(RandomPart {
                name: "connect",
                rule: "proptest: greeting bytes = valid | truncated | one byte flipped | empty version | invalid UTF-8 | other protocol lines | random bytes | beyond 4 KiB, with and without LF; blocking/async connect under a generated segmentation; classified by the reference greeting classifier. non-trivial = non-empty and not a valid greeting",
                cases: (30_000, 1_000_000),
                strategy: Box::new(|_t| {
                    (greeting_bytes(), seg_strategy(40), (0..3usize).prop_map(|i| FLAVOURS[i]))
                        .prop_map(|(bytes, seg, flavour)| ConnectCase { bytes, seg, flavour })
                        .boxed()
                }),
                check: Box::new(check_connect),
            }),
            Box::new(crate::core::ExhaustivePart {
                name: "many_names",
                rule: "one response of N lines each with a field name of its own (N in {70000, 1100000}; thorough + 2200000, 4300000: past 2^16, 2^20, 2^21, 2^22 names alive in one response), then a second small response, delivered whole and in 65535-byte reads to the blocking and the async connection: both responses must come back (N fields, in order) and then the clean end, within the read bound. A receive that does not return within 240 s of wall clock (the unchanged code needs 1-4 s) ends the run as inconclusive (exit 2), never as a violation. non-trivial = every case",
                space: Box::new(|t: Tier| {
                    let sizes = if t == Tier::Thorough { vec![70_000usize, 1_100_000, 2_200_000, 4_300_000] } else { vec![70_000usize, 1_100_000] };
                    Box::new(sizes.into_iter().flat_map(|lines| {
                        [Flavour::Blocking, Flavour::Async].into_iter().flat_map(move |flavour| [0usize, 65_535].into_iter().map(move |chunk| ManyNames { lines, flavour, chunk }))
                    }))
                }),
                check: Box::new(check_many_names),
            }),
            crate::fuzzops::corpus_part("fuzz_corpus", "fz_stream", "C09", crate::fuzzops::stream_target),
        ],
        assumptions: vec![
            "vlib::refdec is the reference for what the bytes mean (self-test vectors run first)",
            "an unterminated final line may be reported as UnexpectedEof or InvalidMessage",
        ],
        selftest: Some(refdec::selftest),
    }
}
