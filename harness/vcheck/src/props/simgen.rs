//! Script generators shared by the simulator-based properties (C01, C04, C05, C08).

use proptest::prelude::*;

use crate::{
    core::B,
    sim::{Fault, ReplySpec, Req, Script, SegPattern, Step},
};

pub const SUBSYSTEMS: [&str; 14] = [
    "database", "update", "stored_playlist", "playlist", "player", "mixer", "output", "options", "partition", "sticker", "subscription",
    "message", "neighbor", "mount",
];

#[derive(Debug, Clone)]
pub enum GenStep {
    /// executed without letting the client run in between
    Together(Vec<GenStep>),
    /// kind: 0 raw, 1 raw list, 2 typed, 3 typed tuple, 4 typed vec
    Issue { caller: u8, kind: u8, replies: Vec<ReplySpec> },
    Plain(Step),
}

pub fn reply_spec() -> impl Strategy<Value = ReplySpec> {
    // field names: short lower-case words, and now and then names that START like a protocol keyword
    // (a response line is a terminator only if it IS the keyword)
    let name = prop_oneof![
        10 => "[a-z]{1,6}".boxed(),
        1 => prop_oneof![Just("list_OK"), Just("list_OKAY"), Just("list_OK_count"), Just("list_ok"), Just("OK"), Just("OKAY"), Just("OK_"), Just("ACK"), Just("ACKed")].prop_map(str::to_string).boxed(),
    ];
    let field = (name, "[a-zA-Z0-9 :]{0,10}");
    prop_oneof![
        6 => (
            prop::collection::vec(field, 0..4usize),
            prop_oneof![
                12 => Just(None),
                3 => prop::collection::vec(any::<u8>(), 0..24usize).prop_map(|v| Some(B(v))),
                1 => (4000..9000usize, any::<u8>()).prop_map(|(n, a)| Some(B((0..n).map(|i| a.wrapping_add(i as u8)).collect()))),
                1 => Just(Some(B(b"\nOK\nchanged: player\nOK\n".to_vec()))),
            ]
        )
            .prop_map(|(fields, binary)| ReplySpec::Ok { fields, binary }),
        2 => (1..60u64, "[a-zA-Z ]{0,12}", prop_oneof![2 => Just(Vec::new()), 1 => prop::collection::vec(("[a-z]{1,6}", "[a-z0-9 ]{0,8}"), 1..3usize)])
            .prop_map(|(code, message, partial)| ReplySpec::Ack { code, message, partial }),
    ]
}

pub fn seg_pattern() -> impl Strategy<Value = SegPattern> {
    prop_oneof![
        4 => Just(SegPattern::Whole),
        2 => Just(SegPattern::Lines),
        1 => Just(SegPattern::OneByte),
        2 => prop_oneof![2..20usize, 100..5000usize].prop_map(SegPattern::Chunk),
    ]
}

pub fn change_names(max: usize) -> impl Strategy<Value = Vec<String>> {
    prop::collection::vec(
        prop_oneof![
            6 => (0..SUBSYSTEMS.len()).prop_map(|i| SUBSYSTEMS[i].to_string()),
            1 => "[a-z_]{1,16}",
            1 => wild_name(),
        ],
        1..=max,
    )
}

/// A subsystem name no released MPD sends: any length up to a few hundred bytes, characters of every
/// UTF-8 width mixed (whatever offset a decoder cuts at, some name has a character straddling it).
pub fn wild_name() -> impl Strategy<Value = String> {
    prop::collection::vec(prop_oneof![4 => Just('x'), 2 => Just('\u{e9}'), 2 => Just('\u{65e5}'), 1 => Just('\u{1f3b5}'), 1 => Just('_'), 1 => Just('Q')], 1..120usize)
        .prop_map(|v| v.into_iter().collect())
}

pub fn advance() -> impl Strategy<Value = Step> {
    prop_oneof![4 => Just(0u64), 4 => Just(1), 4 => Just(50), 4 => Just(99), 4 => Just(100), 4 => Just(101), 4 => Just(150), 4 => Just(250), 1 => Just(6_000), 1 => Just(61_000),
        // hours, days and weeks of silence (housekeeping timers, keep-alives, counters of milliseconds in 32 bits)
        1 => prop_oneof![Just(3_600_001u64), Just(7_200_001), Just(86_400_001), Just(2_592_000_000), Just(4_294_967_296 + 5)]].prop_map(Step::Advance)
}

pub fn release() -> impl Strategy<Value = Step> {
    prop_oneof![Just(1usize), Just(2), Just(3), Just(8), Just(11), Just(15), Just(16), Just(17), Just(19), Just(30), Just(100), 1..40usize]
        .prop_map(Step::Release)
}

pub fn issue(max_callers: u8) -> impl Strategy<Value = GenStep> {
    (0..max_callers, prop_oneof![4 => Just(0u8), 3 => Just(1), 2 => Just(2), 1 => Just(3), 1 => Just(4)], prop::collection::vec(reply_spec(), 1..=5usize), 1..=8usize)
        .prop_map(|(caller, kind, mut replies, arity)| {
            match kind {
                0 | 2 => replies.truncate(1),
                3 => {
                    // tuple arity 1..=8: pad by repeating
                    let base = replies.clone();
                    while replies.len() < arity {
                        replies.push(base[replies.len() % base.len()].clone());
                    }
                    replies.truncate(arity);
                }
                _ => {}
            }
            GenStep::Issue { caller, kind, replies }
        })
}

/// Steps for fault-free request/notification histories.
pub fn gen_step(change_weight: u32, max_names: usize) -> impl Strategy<Value = GenStep> {
    prop_oneof![
        6 => issue(4),
        change_weight => change_names(max_names).prop_map(|n| GenStep::Plain(Step::Change(n))),
        3 => advance().prop_map(GenStep::Plain),
        1 => Just(GenStep::Plain(Step::Hold)),
        2 => release().prop_map(GenStep::Plain),
        1 => Just(GenStep::Plain(Step::ReleaseAll)),
        1 => (0..8u8).prop_map(|n| GenStep::Plain(Step::Cancel(n))),
        2 => together(max_names),
    ]
}

/// two things becoming ready in the same poll of the client's loop
pub fn together(max_names: usize) -> impl Strategy<Value = GenStep> {
    let change = move || change_names(max_names).prop_map(|n| GenStep::Plain(Step::Change(n)));
    prop_oneof![
        3 => (issue(4), change()).prop_map(|(i, c)| GenStep::Together(vec![i, c])),
        2 => (change(), issue(4)).prop_map(|(c, i)| GenStep::Together(vec![c, i])),
        2 => (issue(4), issue(4)).prop_map(|(a, b)| GenStep::Together(vec![a, b])),
        1 => (issue(4), advance()).prop_map(|(a, b)| GenStep::Together(vec![a, GenStep::Plain(b)])),
        1 => (advance(), issue(4)).prop_map(|(a, b)| GenStep::Together(vec![GenStep::Plain(a), b])),
        1 => (issue(4), change(), issue(4)).prop_map(|(a, c, b)| GenStep::Together(vec![a, c, b])),
    ]
}

/// A little scenario that sets up the noidle/changed race or a split idle reply.
pub fn race_block() -> impl Strategy<Value = Vec<GenStep>> {
    (change_names(3), release(), issue(3), prop::bool::ANY, advance()).prop_map(|(names, rel, iss, release_first, adv)| {
        let mut v = vec![GenStep::Plain(adv), GenStep::Plain(Step::Hold), GenStep::Plain(Step::Change(names))];
        if release_first {
            v.push(GenStep::Plain(rel));
            v.push(iss);
        } else {
            v.push(iss);
            v.push(GenStep::Plain(rel));
        }
        v.push(GenStep::Plain(Step::ReleaseAll));
        v
    })
}

/// the transport stops taking writes for a while (TCP backpressure) around notifications / requests
pub fn write_stall_block() -> impl Strategy<Value = Vec<GenStep>> {
    (
        prop::option::of(0..8usize),
        prop_oneof![
            change_names(2).prop_map(|n| vec![GenStep::Plain(Step::Change(n))]),
            issue(3).prop_map(|i| vec![i]),
            (change_names(2), issue(3)).prop_map(|(n, i)| vec![GenStep::Plain(Step::Change(n)), i]),
            (issue(3), change_names(2)).prop_map(|(i, n)| vec![i, GenStep::Plain(Step::Change(n))]),
        ],
        prop_oneof![
            Just(Vec::new()),
            issue(3).prop_map(|i| vec![i]),
            change_names(2).prop_map(|n| vec![GenStep::Plain(Step::Change(n))]),
            advance().prop_map(|a| vec![GenStep::Plain(a)]),
        ],
    )
        .prop_map(|(k, first, second)| {
            let mut v = vec![GenStep::Plain(Step::StallWrites(k))];
            v.extend(first);
            v.extend(second);
            v.push(GenStep::Plain(Step::ResumeWrites));
            v
        })
}

/// many requests back to back, each inside the 100 ms window of the previous reply
pub fn burst_block() -> impl Strategy<Value = Vec<GenStep>> {
    (prop_oneof![4 => Just(5usize), 4 => Just(31), 4 => Just(33), 4 => Just(34), 4 => Just(35), 4 => Just(40), 4 => Just(70), 1 => Just(129), 1 => Just(257), 1 => Just(300)], 0..3u8, prop::collection::vec(reply_spec(), 1..3usize), prop_oneof![Just(0u64), Just(50), Just(99)]).prop_map(
        |(n, caller, replies, gap)| {
            let mut v = Vec::new();
            for _ in 0..n {
                v.push(GenStep::Issue { caller, kind: 0, replies: replies[..1].to_vec() });
                if gap > 0 {
                    v.push(GenStep::Plain(Step::Advance(gap)));
                }
            }
            v
        },
    )
}

/// a reply that takes very long (reply bytes withheld across a big clock jump)
pub fn slow_reply_block() -> impl Strategy<Value = Vec<GenStep>> {
    slow_reply_block_of(issue(3).boxed())
}

/// A request whose reply is withheld for 4 s ... 1 h of virtual time (just short of and just past the
/// round values somebody would pick for a timeout), optionally with a second request queued behind it.
pub fn slow_reply_block_of(issue: BoxedStrategy<GenStep>) -> impl Strategy<Value = Vec<GenStep>> {
    (
        issue.clone(),
        prop_oneof![Just(4_000u64), Just(6_000), Just(29_000), Just(31_000), Just(61_000), Just(119_000), Just(121_000), Just(301_000), Just(601_000), Just(3_600_000)],
        prop::option::of(release()),
        prop::option::of(issue),
    )
        .prop_map(
        |(iss, wait, partial, second)| {
            let mut v = vec![GenStep::Plain(Step::Hold), iss];
            if let Some(p) = partial {
                v.push(GenStep::Plain(p));
            }
            if let Some(s) = second {
                v.push(s);
            }
            v.push(GenStep::Plain(Step::Advance(wait)));
            v.push(GenStep::Plain(Step::ReleaseAll));
            v
        },
    )
}

pub fn assemble(sched_seed: u64, seg: SegPattern, max_write: Option<usize>, gen: Vec<GenStep>) -> Script {
    fn conv(g: GenStep, k: &mut usize, replies: &mut Vec<(String, ReplySpec)>) -> Step {
        match g {
            GenStep::Plain(s) => s,
            GenStep::Together(v) => Step::Together(v.into_iter().map(|x| conv(x, k, replies)).collect()),
            GenStep::Issue { caller, kind, replies: specs } => {
                let toks: Vec<String> = (0..specs.len()).map(|i| format!("r{k}x{i}")).collect();
                for (t, s) in toks.iter().zip(specs) {
                    replies.push((t.clone(), s));
                }
                *k += 1;
                let req = match kind {
                    0 => Req::Raw(toks[0].clone()),
                    1 => Req::RawList(toks),
                    2 => Req::Typed(toks[0].clone()),
                    3 => Req::TypedTuple(toks),
                    _ => Req::TypedVec(toks),
                };
                Step::Issue { caller, req }
            }
        }
    }
    let mut replies = Vec::new();
    let mut k = 0usize;
    let steps = gen.into_iter().map(|g| conv(g, &mut k, &mut replies)).collect();
    Script { sched_seed, seg, replies, steps, max_write, picture: None, broken_pipe: true, greeting: None, lazy_events: false, version: None, vectored: false, events_polled_last: false, error_kind: 0, real_ms_per_advance: 0, noise_connection: false, greeting_tail: None, foreign_callers: false, shutdown_behaviour: 0, events_next_cancelled: false }
}

/// Properties of the peer and the transport that no property statement restricts: the version the
/// server announces and whether the transport takes vectored writes.
pub fn environment() -> impl Strategy<Value = (Option<String>, bool, Option<u16>, u8, (bool, bool, u8, bool))> {
    (
        prop_oneof![
            6 => Just(None),
            1 => prop_oneof![Just("0.19.0"), Just("0.20.23"), Just("0.21.0"), Just("0.21.11"), Just("0.22"), Just("0.24.4"), Just("1.0.0"), Just("10.2.3"), Just("0.23.5-git"), Just("next")].prop_map(|v| Some(v.to_string())),
            1 => "[0-9]{1,2}\\.[0-9]{1,2}(\\.[0-9]{1,2})?".prop_map(Some),
        ],
        prop::bool::weighted(0.25),
        // the application drops its ConnectionEvents handle at some point (the docs allow that)
        prop_oneof![5 => Just(None), 1 => Just(Some(0u16)), 1 => any::<u16>().prop_map(Some)],
        // the kind of io::Error injected faults carry
        prop_oneof![3 => Just(0u8), 4 => 1..8u8],
        // an unrelated second connection on the same thread; the callers' futures polled by an executor
        // on another OS thread
        // ... and what the transport's poll_shutdown does, should the client call it (completes / never
        // completes / fails)
        // ... and whether the application's pending `events.next()` is dropped and re-created before every step
        (prop::bool::weighted(0.15), prop::bool::weighted(0.12), prop_oneof![4 => Just(0u8), 1 => Just(1), 1 => Just(2)], prop::bool::weighted(0.2)),
    )
}

pub fn in_environment(s: impl Strategy<Value = Script>) -> impl Strategy<Value = Script> {
    (s, environment()).prop_map(|(mut s, (version, vectored, drop_events, error_kind, (noise, foreign, shutdown, ev_cancel)))| {
        s.events_next_cancelled = ev_cancel;
        s.foreign_callers = foreign;
        s.shutdown_behaviour = shutdown;
        s.version = version;
        s.vectored = vectored;
        s.error_kind = error_kind;
        s.noise_connection = noise;
        if let Some(at) = drop_events {
            if !s.lazy_events && !crate::props::simprops::flatten(&s.steps).iter().any(|x| matches!(x, Step::DropEvents)) {
                let i = crate::core::pick_idx(at, s.steps.len() + 1);
                s.steps.insert(i, Step::DropEvents);
            }
        }
        s
    })
}

pub fn script(change_weight: u32, max_names: usize, max_steps: usize) -> impl Strategy<Value = Script> {
    in_environment(script_plain(change_weight, max_names, max_steps))
}

fn script_plain(change_weight: u32, max_names: usize, max_steps: usize) -> impl Strategy<Value = Script> {
    (
        any::<u64>(),
        seg_pattern(),
        prop_oneof![4 => Just(None), 1 => (1..12usize).prop_map(Some)],
        prop::collection::vec(
            prop_oneof![
                24 => gen_step(change_weight, max_names).prop_map(|s| vec![s]),
                3 => race_block(),
                1 => burst_block(),
                2 => slow_reply_block(),
                3 => write_stall_block(),
            ],
            1..=max_steps,
        ),
    )
        .prop_map(|(seed, seg, max_write, blocks)| assemble(seed, seg, max_write, blocks.concat()))
}

/// A long-lived connection: an early reply with many distinct field names, then dozens to hundreds of
/// the little race scenarios back to back (the counters, caches and buffers of the connection are far
/// from their initial state when the races happen).
pub fn long_session_script() -> impl Strategy<Value = Script> {
    in_environment(
        (
            any::<u64>(),
            prop_oneof![3 => Just(SegPattern::Whole), 2 => Just(SegPattern::Lines), 1 => (2..20usize).prop_map(SegPattern::Chunk)],
            // distinct field names per key-rich reply; the large counts arrive before the session's
            // first notification (a per-connection name table that changes behaviour once it holds
            // thousands of names must not change how later notifications are read)
            prop_oneof![4 => Just(0usize), 4 => Just(100), 4 => Just(257), 4 => Just(300), 4 => Just(600), 4 => Just(1100), 2 => Just(4100), 2 => Just(5000), 1 => Just(9000), 1 => Just(66_000)],
            prop::collection::vec(
                prop_oneof![
                    6 => race_block(),
                    2 => gen_step(3, 3).prop_map(|s| vec![s]),
                    1 => slow_reply_block(),
                ],
                30..160usize,
            ),
        )
            .prop_map(|(seed, seg, keys, blocks)| {
                let seg = if keys > 2000 { SegPattern::Whole } else { seg };
                let mut gen = Vec::new();
                // the key-rich reply (fresh names every time) recurs every 20 blocks
                let rich = |round: usize| {
                    let c = |d: usize| (b'a' + (d % 26) as u8) as char;
                    let fields = (0..keys).map(|i| (format!("w{}{}{}{}", c(round), c(i / 676), c(i / 26), c(i)), i.to_string())).collect();
                    GenStep::Issue { caller: 0, kind: 0, replies: vec![ReplySpec::Ok { fields, binary: None }] }
                };
                for (i, b) in blocks.into_iter().enumerate() {
                    if keys > 0 && i % 20 == 0 && (keys <= 2000 || i % 60 == 0) {
                        gen.push(rich(i / 20));
                    }
                    gen.extend(b);
                }
                gen.push(GenStep::Plain(Step::ReleaseAll));
                assemble(seed, seg, None, gen)
            }),
    )
}

pub fn fault() -> impl Strategy<Value = Fault> {
    prop_oneof![
        3 => Just(Fault::EofAfter(0)),
        4 => (0..60usize).prop_map(Fault::EofAfter),
        1 => (60..6000usize).prop_map(Fault::EofAfter),
        2 => (0..40usize).prop_map(Fault::ReadErrorAfter),
        3 => (0..4usize).prop_map(Fault::WriteErrorAfter),
        1 => (0..4usize).prop_map(Fault::WriteZeroAfter),
        2 => (0..8usize).prop_map(|short| Fault::WriteInterruptedOnce { short }),
        2 => prop_oneof![Just("foo bar"), Just("ACK nonsense"), Just("list_OK x"), Just(": nokey"), Just("OK "), Just("binary: 2\nabX"), Just("size: 3\nbinary: 3\nabcd")].prop_map(|g| Fault::Garbage(B::from(g))),
    ]
}

/// C08: a request/notification history with exactly one fault (or the last handle dropped).
pub fn faulty_script() -> impl Strategy<Value = Script> {
    in_environment(prop_oneof![
        9 => faulty_script_plain(),
        // an application that holds its events handle without looking at it while notifications pile up
        1 => (faulty_script_plain(), prop_oneof![Just(5usize), Just(1023), Just(1024), Just(1025), Just(1100), Just(2100)]).prop_map(|(mut s, n)| {
            let c = |d: usize| (b'a' + (d % 26) as u8) as char;
            s.steps.insert(0, Step::Change((0..n).map(|i| format!("n{}{}{}", c(i / 676), c(i / 26), c(i))).collect()));
            s.steps.insert(1, Step::Advance(1));
            s.steps.retain(|x| !matches!(x, Step::DropEvents));
            s.lazy_events = true;
            s.events_polled_last = true;
            s
        }),
    ])
}

fn faulty_script_plain() -> impl Strategy<Value = Script> {
    (
        any::<u64>(),
        seg_pattern(),
        prop::collection::vec(prop_oneof![6 => gen_step(2, 2).prop_map(|s| vec![s]), 1 => race_block()], 0..10usize),
        prop_oneof![
            8 => fault().prop_map(|f| vec![GenStep::Plain(Step::Fault(f))]),
            2 => prop::bool::ANY.prop_map(|ev| {
                let mut v = Vec::new();
                if ev {
                    v.push(GenStep::Plain(Step::DropEvents));
                }
                v.push(GenStep::Plain(Step::DropAllClients));
                v
            }),
        ],
        // what the fault strikes: requests issued right before it with their replies on hold
        prop::collection::vec(issue(4), 0..=4usize),
        prop::bool::ANY,
        prop::collection::vec(prop_oneof![3 => issue(4), 1 => advance().prop_map(GenStep::Plain), 1 => Just(GenStep::Plain(Step::ReleaseAll))], 0..=4usize),
        prop::bool::ANY,
        prop::bool::weighted(0.3),
    )
        .prop_map(|(seed, seg, before, fault, queued, hold, after, broken_pipe, after_first)| {
            let mut gen: Vec<GenStep> = before.concat();
            if hold {
                gen.push(GenStep::Plain(Step::Hold));
            }
            gen.extend(queued);
            gen.extend(fault);
            if after_first {
                // later requests are issued while the fault's effect is still withheld
                gen.extend(after);
                gen.push(GenStep::Plain(Step::ReleaseAll));
            } else {
                gen.push(GenStep::Plain(Step::ReleaseAll));
                gen.extend(after);
            }
            let mut s = assemble(seed, seg, None, gen);
            s.broken_pipe = broken_pipe;
            s
        })
}
