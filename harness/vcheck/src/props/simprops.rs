//! Judges over simulator observations: C01 (own reply, order), C04 (events), C05 (legal session).

use std::collections::HashMap;

use proptest::prelude::*;

use crate::{
    core::{escape_bytes, CaseResult, Property, RandomPart, Tier},
    mpdtok,
    props::simgen,
    sim::{self, expected_frames, Ev, Observation, Outcome, ReplySpec, Req, ReqState, Script, Step, Tx, Verdict},
};

pub fn tokens_of(req: &Req) -> Vec<String> {
    match req {
        Req::Raw(t) | Req::Typed(t) => vec![t.clone()],
        Req::RawList(t) | Req::TypedTuple(t) | Req::TypedVec(t) => t.clone(),
        Req::AlbumArt(_) | Req::MixedTuple(_) => Vec::new(),
    }
}

pub fn expected_outcome(replies: &HashMap<String, ReplySpec>, req: &Req) -> Option<Outcome> {
    let toks = tokens_of(req);
    Some(match req {
        Req::Raw(_) | Req::RawList(_) => match expected_frames(replies, &toks, "req") {
            Ok(frames) => Outcome::Frames(frames),
            Err((error, frames)) => Outcome::ErrorResponse { error, frames },
        },
        Req::Typed(_) | Req::TypedTuple(_) | Req::TypedVec(_) => match expected_frames(replies, &toks, "probe") {
            Ok(_) => Outcome::Typed(toks),
            Err((error, frames)) => Outcome::ErrorResponse { error, frames },
        },
        _ => return None,
    })
}

fn short(o: &impl std::fmt::Debug) -> String {
    format!("{o:?}").chars().take(500).collect()
}

/// Common sanity of a fault-free run.
fn basic(r: &mut CaseResult, obs: &Observation) -> bool {
    if let Some(e) = &obs.connect_error {
        r.fail(format!("connect failed on a valid greeting: {e}"));
        return false;
    }
    if obs.panics > 0 {
        r.fail(format!("{} panic(s) inside the client: {:?}", obs.panics, crate::core::last_panic()));
        return false;
    }
    if obs.poll_bound_exceeded {
        r.fail("the client polls the transport without bound");
        return false;
    }
    true
}

fn classify(r: &mut CaseResult, script: &Script, obs: &Observation) {
    let concurrent = obs.requests.iter().any(|(_, _, _, pending)| *pending >= 1);
    let noidle_race = obs.transcript.iter().any(|t| matches!(t, Tx::Line { line, server_idle: false, .. } if mpdtok::c_line(line) == b"noidle"));
    // a request line that reached the server without a noidle since the previous reply
    let mut direct = false;
    let mut since_reply_noidle = true;
    for t in &obs.transcript {
        match t {
            Tx::Reply { .. } => since_reply_noidle = false,
            Tx::Line { line, .. } => {
                let l = mpdtok::c_line(line);
                if l == b"noidle" || l == b"idle" {
                    since_reply_noidle = true;
                } else if !since_reply_noidle && (l.starts_with(b"req") || l.starts_with(b"probe") || l.starts_with(b"command_list")) {
                    direct = true;
                }
            }
            _ => {}
        }
    }
    let partial_list_failure = obs
        .requests
        .iter()
        .any(|(_, _, st, _)| matches!(st, ReqState::Done(Outcome::ErrorResponse { frames, .. }) if !frames.is_empty()));
    let cancels = obs.requests.iter().any(|(_, _, st, _)| *st == ReqState::Cancelled);
    let multi_changed = obs.transcript.iter().any(|t| matches!(t, Tx::Changed { names, .. } if names.len() >= 2));
    let changed_ranges: Vec<(usize, usize)> = obs
        .transcript
        .iter()
        .filter_map(|t| match t {
            Tx::Changed { start, end, .. } => Some((*start, *end)),
            _ => None,
        })
        .collect();
    let split_idle_reply = !changed_ranges.is_empty()
        && obs.transcript.iter().any(|t| match t {
            Tx::Read { pos, .. } => changed_ranges.iter().any(|(start, end)| start < pos && pos < end),
            _ => false,
        });
    r.class_if(concurrent, "requests_pending_at_once");
    r.class_if(noidle_race, "noidle_crossed_idle_reply");
    r.class_if(direct, "request_inside_100ms_window");
    r.class_if(partial_list_failure, "list_failed_part_way");
    r.class_if(cancels, "cancellation");
    r.class_if(multi_changed, "idle_reply_with_several_names");
    r.class_if(split_idle_reply, "idle_reply_split_across_reads");
    r.class_if(script.max_write.is_some(), "partial_writes");
    r.class_if(flatten(&script.steps).iter().any(|s| matches!(s, Step::StallWrites(_))), "write_backpressure");
    r.class_if(script.foreign_callers, "callers_polled_on_another_thread");
    r.class_if(script.events_next_cancelled, "events_next_future_dropped_and_recreated");
    r.class_if(script.shutdown_behaviour != 0, "transport_shutdown_stalls_or_fails");
    r.class_if(script.noise_connection, "second_connection_on_the_thread");
    r.class_if(script.steps.iter().any(|s| matches!(s, Step::Together(_))), "simultaneous_steps");
    r.class_if(script.replies.iter().any(|(_, s)| matches!(s, ReplySpec::Ack { partial, .. } if !partial.is_empty())), "ack_after_partial_output");
    r.class_if(obs.requests.iter().any(|(_, q, _, _)| matches!(q, Req::TypedTuple(_) | Req::TypedVec(_))), "typed_list");
}

// ---------------------------------------------------------------------------------------------
// C01

pub fn judge_c01(script: &Script, obs: &Observation) -> CaseResult {
    let mut r = CaseResult::new();
    if !basic(&mut r, obs) {
        return r;
    }
    classify(&mut r, script, obs);
    let replies: HashMap<String, ReplySpec> = script.replies.iter().cloned().collect();
    for (i, (caller, req, state, _)) in obs.requests.iter().enumerate() {
        match state {
            ReqState::Cancelled => continue,
            ReqState::Hung => {
                r.fail(format!("request {i} ({req:?}) of caller {caller} never resolved"));
                return r;
            }
            ReqState::Panicked => {
                r.fail(format!("request {i} panicked"));
                return r;
            }
            ReqState::Done(got) => {
                let Some(want) = expected_outcome(&replies, req) else { continue };
                let want = if matches!(req, Req::TypedVec(t) if t.is_empty()) { Outcome::Typed(Vec::new()) } else { want };
                if *got != want {
                    r.fail(format!("request {i} ({req:?}) of caller {caller} resolved to {} but the server's reply to it was {}", short(got), short(&want)));
                    return r;
                }
            }
        }
    }
    // per-caller order on the wire
    let mut arrival: HashMap<String, u64> = HashMap::new();
    for t in &obs.transcript {
        if let Tx::Line { seq, line, .. } = t {
            if let Ok(toks) = mpdtok::tokenize(line) {
                if toks.len() == 2 && (toks[0] == b"req" || toks[0] == b"probe") {
                    arrival.entry(String::from_utf8_lossy(&toks[1]).to_string()).or_insert(*seq);
                }
            }
        }
    }
    let mut last: HashMap<u8, (u64, usize)> = HashMap::new();
    for (i, (caller, req, _, _)) in obs.requests.iter().enumerate() {
        let Some(first) = tokens_of(req).first().cloned() else { continue };
        if let Some(seq) = arrival.get(&first) {
            if let Some((prev, pi)) = last.get(caller) {
                if seq < prev {
                    r.fail(format!("caller {caller}: request {i} reached the server before its earlier request {pi}"));
                    return r;
                }
            }
            last.insert(*caller, (*seq, i));
        }
    }
    // ... and across clones: the driver is ONE caller that issues its requests one after another through
    // whichever clone the script names. A request issued in an earlier script step (the step was settled,
    // so the request had been handed to the client before the next one was even created) must not reach
    // the server after one issued in a later step, whichever clones carried them.
    let mut prev: Option<(u64, usize, usize)> = None;
    for (i, (_, req, st, _)) in obs.requests.iter().enumerate() {
        let Some(first) = tokens_of(req).first().cloned() else { continue };
        let (Some(seq), Some(step)) = (arrival.get(&first), obs.request_steps.get(i)) else { continue };
        if *st == ReqState::Cancelled {
            continue;
        }
        if let Some((pseq, pstep, pi)) = prev {
            if *step > pstep && *seq < pseq {
                r.fail(format!(
                    "request {i} (issued in step {step} through clone {}) reached the server before request {pi} (issued earlier, in step {pstep}, through clone {}): requests issued one after another by one caller must arrive in that order",
                    obs.requests[i].0, obs.requests[pi].0
                ));
                return r;
            }
        }
        if prev.is_none_or(|(pseq, _, _)| *seq > pseq) {
            prev = Some((*seq, *step, i));
        }
    }
    let nt = r.classes.iter().any(|c| {
        ["requests_pending_at_once", "noidle_crossed_idle_reply", "request_inside_100ms_window", "list_failed_part_way", "idle_reply_split_across_reads"].contains(c)
    }) || (r.classes.contains(&"cancellation") && obs.requests.len() >= 2);
    if nt {
        r.nontrivial();
    }
    r
}

// ---------------------------------------------------------------------------------------------
// C04

/// Every `changed:` line the server wrote, in order; the flag marks lines that were consumed by a
/// receive() which the idle loop's select! then dropped in favour of a request (the client wrote
/// noidle while its read position was strictly inside the reply, at or after the end of the line).
/// That is the window of finding F-B (fixed by 19fe0aa): it is only classified, never forgiven.
fn expected_events(obs: &Observation) -> Vec<(String, bool)> {
    let noidle_positions: Vec<usize> = obs
        .transcript
        .iter()
        .filter_map(|t| match t {
            Tx::Line { line, read_pos, .. } if mpdtok::c_line(line) == b"noidle" => Some(*read_pos),
            _ => None,
        })
        .collect();
    let mut out = Vec::new();
    for t in &obs.transcript {
        if let Tx::Changed { names, start, end, .. } = t {
            let mut off = *start;
            for n in names {
                let line_end = off + "changed: ".len() + n.len() + 1;
                let in_window = noidle_positions.iter().any(|p| *p > *start && *p < *end && line_end <= *p);
                out.push((n.clone(), in_window));
                off = line_end;
            }
        }
    }
    out
}

pub fn judge_c04(script: &Script, obs: &Observation) -> CaseResult {
    let mut r = CaseResult::new();
    if !basic(&mut r, obs) {
        return r;
    }
    classify(&mut r, script, obs);
    let want = expected_events(obs);
    let unknown = want.iter().any(|(n, _)| !simgen::SUBSYSTEMS.contains(&n.as_str()));
    let flat = flatten(&script.steps);
    let outside_idle = flat.windows(2).any(|w| matches!((&w[0], &w[1]), (Step::Issue { .. }, Step::Change(_))));
    r.class_if(unknown, "unknown_subsystem_name");
    r.class_if(outside_idle, "change_right_after_issue");
    r.class_if(want.iter().any(|(_, w)| *w), "lines_consumed_by_a_cancelled_receive");
    if !want.is_empty()
        && (unknown
            || outside_idle
            || r.classes.iter().any(|c| ["idle_reply_with_several_names", "idle_reply_split_across_reads", "noidle_crossed_idle_reply", "lines_consumed_by_a_cancelled_receive"].contains(c)))
    {
        r.nontrivial();
    }

    let mut got = Vec::new();
    for e in &obs.events {
        match e {
            Ev::Change(n) => got.push(n.clone()),
            Ev::Closed(e) => {
                r.fail(format!("ConnectionClosed({e}) event in a fault-free session"));
                return r;
            }
        }
    }
    let mut names: Vec<&str> = want.iter().map(|(n, _)| n.as_str()).collect();
    if flat.iter().any(|s| matches!(s, Step::DropEvents)) {
        // the application gave up its events handle: what it had received until then must be a
        // prefix of what the server reported (nothing invented, reordered or skipped)
        r.class("events_handle_dropped");
        names.truncate(got.len());
    }
    if got.iter().map(String::as_str).collect::<Vec<_>>() != names {
        r.fail(format!(
            "events delivered {got:?}, but the server reported {names:?} (lines consumed by a receive() that was cancelled in favour of a request: {:?})",
            want.iter().filter(|(_, w)| *w).map(|(n, _)| n.as_str()).collect::<Vec<_>>()
        ));
        return r;
    }
    r
}

// ---------------------------------------------------------------------------------------------
// C05

pub fn judge_c05(script: &Script, obs: &Observation) -> CaseResult {
    let mut r = CaseResult::new();
    if !basic(&mut r, obs) {
        return r;
    }
    classify(&mut r, script, obs);
    let flat = flatten(&script.steps);
    let change_in_window = flat.windows(2).any(|w| matches!((&w[0], &w[1]), (Step::Advance(ms), Step::Change(_)) if *ms < 100));
    r.class_if(change_in_window, "change_inside_100ms_window");
    if r.classes.iter().any(|c| ["noidle_crossed_idle_reply", "requests_pending_at_once", "change_inside_100ms_window", "request_inside_100ms_window"].contains(c)) {
        r.nontrivial();
    }
    for v in &obs.verdicts {
        match v {
            Verdict::UnknownToken(_) => {}
            other => {
                r.fail(format!("the simulated MPD objects: {other:?}; client output so far: {:?}", tail(&obs.written)));
                return r;
            }
        }
    }
    for (i, (caller, req, state, _)) in obs.requests.iter().enumerate() {
        if *state == ReqState::Hung {
            r.fail(format!(
                "the session stalls: request {i} ({req:?}) of caller {caller} is never answered; client output: {:?}",
                tail(&obs.written)
            ));
            return r;
        }
    }
    if !obs.unterminated_client_output.is_empty() {
        r.fail(format!("client output ends in an unterminated line {:?}", escape_bytes(&obs.unterminated_client_output)));
        return r;
    }
    // every written line is one of: idle, noidle, a request line, list framing
    for q in &obs.quiescent {
        if !q.ended && !q.hold && !q.writes_stalled && q.unread == 0 && q.pending_requests == 0 && q.t_ms > q.last_io_ms + 100 && !q.server_idle {
            r.fail(format!(
                "at t={} ms (after step {}), {} ms after the last I/O with no request pending, the server is not in idle: notifications would stop; client output: {:?}",
                q.t_ms,
                q.after_step,
                q.t_ms - q.last_io_ms,
                tail(&obs.written)
            ));
            return r;
        }
    }
    r
}

pub fn flatten(steps: &[Step]) -> Vec<Step> {
    let mut out = Vec::new();
    for s in steps {
        match s {
            Step::Together(v) => out.extend(flatten(v)),
            other => out.push(other.clone()),
        }
    }
    out
}

fn tail(b: &[u8]) -> String {
    let s = escape_bytes(b);
    let n = s.len();
    if n > 300 {
        format!("...{}", &s[n - 300..])
    } else {
        s
    }
}

// ---------------------------------------------------------------------------------------------
// systematic small-scope schedules: every sequence of <= N atomic steps over a fixed alphabet

fn atom(i: usize, k: &mut usize, replies: &mut Vec<(String, ReplySpec)>) -> Step {
    let mut issue = |caller: u8, list: bool, replies: &mut Vec<(String, ReplySpec)>| {
        let n = *k;
        *k += 1;
        let ok = |t: &str| (t.to_string(), ReplySpec::Ok { fields: vec![("v".into(), t.to_string())], binary: None });
        if list {
            let toks = vec![format!("r{n}x0"), format!("r{n}x1"), format!("r{n}x2")];
            replies.push(ok(&toks[0]));
            replies.push((toks[1].clone(), ReplySpec::Ack { code: 50, message: "nope".into(), partial: vec![("p".into(), "q".into())] }));
            replies.push(ok(&toks[2]));
            Step::Issue { caller, req: Req::RawList(toks) }
        } else {
            let t = format!("r{n}x0");
            replies.push(ok(&t));
            Step::Issue { caller, req: Req::Raw(t) }
        }
    };
    match i {
        0 => issue(0, false, replies),
        1 => issue(1, false, replies),
        2 => issue(0, true, replies),
        3 => Step::Change(vec!["player".into()]),
        4 => Step::Change(vec!["mixer".into(), "zz_new".into()]),
        5 => Step::Advance(99),
        6 => Step::Advance(101),
        7 => Step::Hold,
        8 => Step::Release(16),
        9 => Step::ReleaseAll,
        10 => {
            let a = issue(1, false, replies);
            Step::Together(vec![a, Step::Change(vec!["options".into()])])
        }
        11 => {
            let a = issue(0, false, replies);
            let b = issue(1, false, replies);
            Step::Together(vec![a, b])
        }
        _ => Step::Cancel(0),
    }
}

pub const ATOMS: usize = 13;

/// All sequences of 1..=max_len atoms x `seeds` select! seeds x {whole, lines} segmentation.
pub fn systematic_scripts(max_len: usize, seeds: u64) -> impl Iterator<Item = Script> {
    let mut total = 0usize;
    let mut pow = 1usize;
    for _ in 1..=max_len {
        pow *= ATOMS;
        total += pow;
    }
    (0..total).flat_map(move |mut idx| {
        let mut len = 1;
        let mut block = ATOMS;
        while idx >= block {
            idx -= block;
            block *= ATOMS;
            len += 1;
        }
        let mut digits = Vec::with_capacity(len);
        for _ in 0..len {
            digits.push(idx % ATOMS);
            idx /= ATOMS;
        }
        (0..seeds).flat_map(move |seed| {
            let digits = digits.clone();
            [sim::SegPattern::Whole, sim::SegPattern::Lines].into_iter().map(move |seg| {
                let mut replies = Vec::new();
                let mut k = 0;
                let steps = digits.iter().map(|d| atom(*d, &mut k, &mut replies)).collect();
                Script { sched_seed: seed + 1, seg, replies, steps, max_write: None, picture: None, broken_pipe: true, greeting: None, lazy_events: false, version: None, vectored: false, events_polled_last: false, error_kind: 0, real_ms_per_advance: 0, noise_connection: false, greeting_tail: None, foreign_callers: false, shutdown_behaviour: 0, events_next_cancelled: false }
            })
        })
    })
}

pub fn systematic_part(judge: fn(&Script, &Observation) -> CaseResult) -> Box<dyn crate::core::Part> {
    Box::new(crate::core::ExhaustivePart {
        name: "systematic_schedules",
        rule: "EVERY sequence of 1-4 (thorough: 1-5) steps over 13 atoms {request by caller 0, request by caller 1, 3-command list failing at its 2nd command after partial output, change [player], change [mixer, zz_new], advance 99 ms, advance 101 ms, hold, release 16 bytes, release all, request+change becoming ready together, two requests together, cancel request 0} x 1 (thorough 2) select! seeds x {whole, per-line} segmentation; same judge as the random part; non-trivial by the same rule",
        space: Box::new(|t: Tier| Box::new(systematic_scripts(t.pick(4, 5), t.pick(1, 2)))),
        check: Box::new(move |s: &Script| {
            let obs = sim::run(s);
            judge(s, &obs)
        }),
    })
}

/// C04 with a consumer that does not read events before the end: nothing may be dropped however
/// many notifications pile up.
fn slow_consumer_part() -> Box<dyn crate::core::Part> {
    Box::new(RandomPart {
        name: "slow_consumer",
        rule: "proptest: N idle replies of 1-4 names each, N from {1, 10, 100, 300, 600, 1100, 2500}, with a request every ~50 changes, while the event receiver is not polled until the end of the script; afterwards the events must be exactly all reported names in order. non-trivial = more than 1000 names pending",
        cases: (48, 2_000),
        strategy: Box::new(|_t| {
            (
                prop_oneof![Just(1usize), Just(10), Just(100), Just(300), Just(600), Just(1100), Just(2500)],
                any::<u64>(),
                1..=4usize,
            )
                .prop_map(|(n, seed, width)| {
                    let mut steps = Vec::new();
                    let mut replies = Vec::new();
                    let mut s = seed;
                    for i in 0..n {
                        let mut names = Vec::new();
                        for _ in 0..width {
                            s = crate::core::splitmix64(s);
                            names.push(simgen::SUBSYSTEMS[(s % 14) as usize].to_string());
                        }
                        steps.push(Step::Change(names));
                        if i % 50 == 49 {
                            let t = format!("r{i}x0");
                            replies.push((t.clone(), ReplySpec::Ok { fields: vec![], binary: None }));
                            steps.push(Step::Issue { caller: 0, req: Req::Raw(t) });
                            // let the client go back to idle, otherwise the server merges the
                            // following changes into one reply
                            steps.push(Step::Advance(101));
                        }
                    }
                    Script { sched_seed: seed, seg: sim::SegPattern::Whole, replies, steps, max_write: None, picture: None, broken_pipe: true, greeting: None, lazy_events: true, version: None, vectored: false, events_polled_last: false, error_kind: 0, real_ms_per_advance: 0, noise_connection: false, greeting_tail: None, foreign_callers: false, shutdown_behaviour: 0, events_next_cancelled: false }
                })
                .boxed()
        }),
        check: Box::new(|s: &Script| {
            let obs = sim::run(s);
            let mut r = judge_c04(s, &obs);
            if std::env::var_os("VERIF_DEBUG").is_some() {
                eprintln!("slow_consumer: {} steps, {} events, ended {}, outcome {:?}", s.steps.len(), obs.events.len(), obs.events_ended, r.outcome);
            }
            r.nontrivial = obs.events.len() > 1000;
            r.classes.clear();
            r.class(if obs.events.len() > 1024 { "more_than_1024_pending" } else { "up_to_1024_pending" });
            r
        }),
    })
}

pub fn c01(_tier: Tier) -> Property {
    Property {
        id: "C01",
        level: "exploration",
        parts: vec![Box::new(RandomPart {
            name: "histories",
            rule: "proptest: script of 1-24 steps/blocks over 1-4 callers: Issue (raw command, raw list 1-5, typed probe, typed tuple arity 1-8, typed Vec; reply table per token: 0-3 fields, optional payload up to 9 KB incl. protocol look-alikes, or ACK at any list position), Change, Advance {0,1,50,99,100,101,150,250} ms, Hold/Release(n)/ReleaseAll (reply bytes withheld and handed out in pieces), Cancel, race blocks (idle reply in flight around an Issue); segmentation pattern whole/lines/one-byte/chunks; optional partial writes; select! seeded per case. Every non-cancelled request must resolve to exactly the reply-table entry of its own tokens; per-caller arrival order on the server transcript. non-trivial = >=2 requests pending at once, noidle crossing an idle reply, a request inside the 100 ms window, a list failing part-way, an idle reply split across reads, or a cancellation next to other requests; distinct by serialised script",
            cases: (60_000, 3_000_000),
            strategy: Box::new(|_t| simgen::script(2, 2, 24).boxed()),
            check: Box::new(|s: &Script| {
                let obs = sim::run(s);
                judge_c01(s, &obs)
            }),
        }), systematic_part(judge_c01), long_sessions_part(judge_c01), wall_clock_part(judge_c01), crate::fuzzops::corpus_part("fuzz_corpus", "fz_sim", "C01", crate::fuzzops::sim_target)],
        assumptions: vec![
            "schedules are those of a current-thread tokio runtime with a paused clock and seeded select! (tokio channels and timers trusted)",
            "the simulated MPD answers each token from the case's reply table",
        ],
        selftest: None,
    }
}

pub fn c04(_tier: Tier) -> Property {
    Property {
        id: "C04",
        level: "exploration",
        parts: vec![Box::new(RandomPart {
            name: "histories",
            rule: "as C01's scripts but biased to Change steps with 1-4 names from the 14 documented subsystems and unknown [a-z_]{1,16} names, changes while idle / while a request is in flight / inside the re-idle delay / right before an Issue with the reply on hold; the event sequence must equal the concatenation of all 'changed:' lines the simulated server wrote. non-trivial = at least one change and (a reply with >=2 names, an unknown name, a reply split across reads, a change right after an Issue, or the noidle race, or a receive() cancelled after it consumed lines of a split reply - the window of fixed finding F-B)",
            cases: (60_000, 3_000_000),
            strategy: Box::new(|_t| simgen::script(6, 4, 24).boxed()),
            check: Box::new(|s: &Script| {
                let obs = sim::run(s);
                judge_c04(s, &obs)
            }),
        }), systematic_part(judge_c04), slow_consumer_part(), long_sessions_part(judge_c04), crate::fuzzops::corpus_part("fuzz_corpus", "fz_sim", "C04", crate::fuzzops::sim_target)],
        assumptions: vec!["as C01", "pending changes are reported by the simulated server at the next idle, duplicates merged (as MPD's idle flags)"],
        selftest: None,
    }
}

/// Long-lived connections (hundreds of requests and notifications on one connection).
pub fn long_sessions_part(judge: fn(&Script, &Observation) -> CaseResult) -> Box<dyn crate::core::Part> {
    Box::new(RandomPart {
        name: "long_sessions",
        rule: "proptest: one connection that receives a reply with 0/100/257/300/600/1100 distinct, fresh field names every 20 blocks and lives through 30-160 blocks back to back (mostly the noidle/changed race scenario: hold, change, issue, partial release; also plain steps and slow replies), any segmentation, greeting version, vectored or plain writes; same judge as the part 'histories'. non-trivial as there",
        cases: (400, 30_000),
        strategy: Box::new(|_t| simgen::long_session_script().boxed()),
        check: Box::new(move |s: &Script| {
            let obs = sim::run(s);
            let mut r = judge(s, &obs);
            r.class_if(obs.requests.len() >= 128, "session_with_128plus_requests");
            r
        }),
    })
}

/// Real time passes too (the simulator's clock is virtual; code that reads the wall clock must not
/// behave differently when a reply takes real time to arrive).
pub fn wall_clock_part(judge: fn(&Script, &Observation) -> CaseResult) -> Box<dyn crate::core::Part> {
    Box::new(RandomPart {
        name: "wall_clock",
        rule: "proptest: short histories of the part 'histories' in which every Advance step also lets real time pass (quick: up to 130 ms per step; thorough: a quarter of the cases up to 5.3 s per step, with an Advance of 6 s before a request), replies withheld across such steps; same judge. non-trivial as there",
        cases: (32, 192),
        strategy: Box::new(|t| {
            (simgen::script(2, 2, 5), any::<u16>(), prop::bool::weighted(if t == crate::core::Tier::Thorough { 0.25 } else { 0.0 }))
                .prop_map(|(mut s, at, long)| {
                    s.real_ms_per_advance = if long { 5_300 } else { 130 };
                    // a reply that takes (real and virtual) time: hold, request, wait, release
                    let i = crate::core::pick_idx(at, s.steps.len() + 1);
                    let tok = "rwcx0".to_string();
                    s.replies.push((tok.clone(), sim::ReplySpec::Ok { fields: vec![], binary: None }));
                    let block = vec![
                        Step::Advance(if long { 6_000 } else { 150 }),
                        Step::Hold,
                        Step::Issue { caller: 3, req: Req::Raw(tok) },
                        Step::Advance(120),
                        Step::ReleaseAll,
                        Step::Advance(101),
                    ];
                    for (k, b) in block.into_iter().enumerate() {
                        s.steps.insert(i + k, b);
                    }
                    // keep the real time per case bounded
                    let mut advances = 0;
                    s.steps.retain(|x| !matches!(x, Step::Advance(_)) || { advances += 1; advances <= 8 });
                    s
                })
                .boxed()
        }),
        check: Box::new(move |s: &Script| {
            let obs = sim::run(s);
            judge(s, &obs)
        }),
    })
}

/// Sessions that start with the password handshake.
fn password_sessions_part() -> Box<dyn crate::core::Part> {
    Box::new(RandomPart {
        name: "password_sessions",
        rule: "proptest: histories of 1-8 steps on a connection opened with Client::connect_with_password (accepted password; any segmentation of the server's output, so the verdict on the password may arrive byte by byte): same judge as 'histories' - in particular nothing may be written while the reply to the password is unread. non-trivial as there",
        cases: (6_000, 300_000),
        strategy: Box::new(|_t| (simgen::script(3, 3, 8), "[a-zA-Z0-9 ]{1,12}").boxed()),
        check: Box::new(|(s, pw): &(Script, String)| {
            let obs = sim::run_with(s, sim::Connect::Password(sim::Password { password: pw.clone(), verdict: sim::PasswordVerdict::Ok, cut: None }));
            let mut r = judge_c05(s, &obs);
            r.class("connected_with_password");
            r
        }),
    })
}

/// C05 under faults: whatever goes wrong, what the client has written is a prefix of a legal session.
fn legal_under_faults_part() -> Box<dyn crate::core::Part> {
    Box::new(RandomPart {
        name: "legal_under_faults",
        rule: "C08's scripts restricted to faults on the client's own side of the conversation (peer close, persistent write error, transient Interrupted write error after a short write, handles dropped; NOT read errors or injected garbage, after which the unchanged client legitimately keeps writing until its next read fails): the simulated MPD must raise no verdict about anything the client wrote (an unterminated last line is allowed). This goes beyond C05's stated quantifier (fault-free schedules); it is kept because it holds on the unchanged tree and is the only place where a client that re-sends already written bytes after a transient write error shows. non-trivial = the fault struck",
        cases: (20_000, 1_000_000),
        strategy: Box::new(|_t| {
            simgen::faulty_script()
                .prop_filter("client-side faults only", |s| {
                    !flatten(&s.steps).iter().any(|x| matches!(x, Step::Fault(sim::Fault::ReadErrorAfter(_)) | Step::Fault(sim::Fault::Garbage(_))))
                })
                .boxed()
        }),
        check: Box::new(|s: &Script| {
            let obs = sim::run(s);
            let mut r = CaseResult::new();
            if obs.panics > 0 {
                r.fail(format!("panic inside the client: {:?}", crate::core::last_panic()));
                return r;
            }
            if obs.eof_seen || obs.read_err_seen || obs.write_err_seen || obs.broken_pipe_seen || obs.garbage_at.is_some() {
                r.nontrivial();
                r.class("fault_struck");
            }
            for v in &obs.verdicts {
                // an injected malformed line is unsolicited server output: the client cannot have
                // read it before it writes its next line, that is not the client's doing
                if matches!(v, Verdict::RequestWhileReplyUnread(_)) && obs.garbage_at.is_some() {
                    continue;
                }
                if !matches!(v, Verdict::UnknownToken(_)) {
                    r.fail(format!("the simulated MPD objects: {v:?}; client output: {:?}", tail(&obs.written)));
                    return r;
                }
            }
            r
        }),
    })
}

pub fn c05(_tier: Tier) -> Property {
    Property {
        id: "C05",
        level: "exploration",
        parts: vec![Box::new(RandomPart {
            name: "histories",
            rule: "scripts as C01/C04 (fault-free, incl. partial writes); the simulated MPD must raise no verdict (first line idle; only noidle while it waits in idle; no request or idle while reply bytes of an earlier exchange are unread; no nested/unterminated list) and at every quiescent point more than 100 ms after the last I/O with no request pending and nothing withheld it must be waiting in idle. non-trivial = noidle race, requests pending at once, a change or request inside the 100 ms window",
            cases: (60_000, 3_000_000),
            strategy: Box::new(|_t| simgen::script(3, 3, 24).boxed()),
            check: Box::new(|s: &Script| {
                let obs = sim::run(s);
                judge_c05(s, &obs)
            }),
        }), systematic_part(judge_c05), legal_under_faults_part(), long_sessions_part(judge_c05), wall_clock_part(judge_c05), password_sessions_part(), crate::fuzzops::corpus_part("fuzz_corpus", "fz_sim", "C05", crate::fuzzops::sim_target)],
        assumptions: vec!["the server model implements MPD's idle rules (client/Process.cxx, client/Idle.cxx): noidle outside idle is ignored without reply, anything but noidle during idle is a protocol violation"],
        selftest: None,
    }
}
