//! C17 — album art is reassembled byte-exactly for any size and chunk limit.

use proptest::prelude::*;
use serde::{Deserialize, Serialize};

use crate::{
    core::{CaseResult, Property, RandomPart, Tier, B},
    props::{simgen, simprops},
    sim::{self, Outcome, Pic, PicSource, PictureServer, Req, ReqState, Script, Step, Tx},
    wire::OErr,
};

#[derive(Debug, PartialEq)]
enum Want {
    Art(Option<(B, Option<String>)>),
    Error(u64),
}

/// Sizes of the data replies the server will give for one transfer of `size` bytes, and the index of
/// the request that is answered with an error instead (if the transfer gets that far).
fn plan(ps: &PictureServer, size: usize) -> (Vec<usize>, Option<(usize, u64)>) {
    let limit = ps.limit.max(1);
    let mut chunks = Vec::new();
    let mut served = 0;
    let mut i = 0;
    loop {
        if let Some((n, code)) = ps.fail_at {
            if n >= 1 && n == i {
                return (chunks, Some((i, code)));
            }
        }
        let cap = if ps.pattern.is_empty() { usize::MAX } else { ps.pattern[i % ps.pattern.len()].max(1) };
        let n = (size - served).min(limit).min(cap);
        chunks.push(n);
        served += n;
        i += 1;
        if served >= size {
            return (chunks, None);
        }
    }
}

fn expected(ps: &PictureServer) -> (Want, bool) {
    let cover = |fallback: bool| -> (Want, bool) {
        match &ps.cover {
            PicSource::Present(p) => (Want::Art(Some((p.bytes.clone(), None))), fallback),
            PicSource::Absent => (Want::Art(None), fallback),
            PicSource::Error(c) => (Want::Error(*c), fallback),
            PicSource::UnknownCommand => (Want::Error(5), fallback),
        }
    };
    match &ps.embedded {
        PicSource::Present(p) => (Want::Art(Some((p.bytes.clone(), p.mime.clone()))), false),
        PicSource::Absent | PicSource::UnknownCommand => cover(true),
        PicSource::Error(5) => cover(true),
        PicSource::Error(c) => (Want::Error(*c), false),
    }
}

pub fn check(script: &Script) -> CaseResult {
    let obs = sim::run(script);
    // the other callers' token requests must be unaffected
    let mut r = simprops::judge_c01(script, &obs);
    if r.failed() {
        return r;
    }
    r.nontrivial = false;
    let Some(ps) = &script.picture else { return r };
    let (mut want, fallback) = expected(ps);
    let size = match &want {
        Want::Art(Some((b, _))) => Some(b.len()),
        _ => None,
    };
    let limit = ps.limit.max(1);
    let (sizes, failing) = size.map_or((Vec::new(), None), |s| plan(ps, s));
    if let Some((_, code)) = failing {
        // a server error on a continuation request is propagated like any other
        want = Want::Error(code);
    }
    let chunks = size.map(|_| sizes.len() + usize::from(failing.is_some()));
    r.class_if(failing.is_some(), "error_on_a_continuation_request");
    r.class_if(!ps.pattern.is_empty() && sizes.windows(2).any(|w| w[0] != w[1] && w[1] != *sizes.last().unwrap()), "chunk_sizes_vary_mid_transfer");
    r.class_if(fallback, "fallback_to_cover_file");
    r.class_if(matches!(want, Want::Error(_)), "server_error");
    r.class_if(matches!(want, Want::Art(None)), "absent");
    r.class_if(size == Some(0), "size_0");
    let _ = limit;
    r.class_if(chunks == Some(1) && size != Some(0), "single_chunk");
    r.class_if(chunks.is_some_and(|c| c >= 2), "several_chunks");
    r.class_if(size.is_some_and(|s| s % limit != 0 && s > limit), "size_not_multiple_of_limit");
    r.class_if(size.is_some_and(|s| s > 4096), "larger_than_receive_buffer");
    let concurrent = obs.requests.len() >= 2 || simprops::flatten(&script.steps).iter().any(|s| matches!(s, Step::Change(_)));
    r.class_if(concurrent, "concurrent_activity");
    if size.is_some_and(|s| s % limit != 0 && s > limit) || fallback || concurrent {
        r.nontrivial();
    }

    for (i, (_, req, state, _)) in obs.requests.iter().enumerate() {
        let Req::AlbumArt(uri) = req else { continue };
        let got = match state {
            ReqState::Done(o) => o,
            // a caller that gave up (its future was dropped) is owed nothing
            ReqState::Cancelled => {
                r.class("album_art_caller_gave_up");
                continue;
            }
            other => {
                r.fail(format!("album_art request {i} did not complete: {other:?}"));
                return r;
            }
        };
        let ok = match (&want, got) {
            (Want::Art(w), Outcome::Art(g)) => w == g,
            (Want::Error(c), Outcome::ErrorResponse { error: OErr { code, .. }, .. }) => c == code,
            _ => false,
        };
        if !ok {
            let show = |o: &dyn std::fmt::Debug| format!("{o:?}").chars().take(300).collect::<String>();
            r.fail(format!("album_art({uri:?}) returned {}, expected {} (picture server: limit {}, embedded {}, cover {})", show(got), show(&want), ps.limit, show(&ps.embedded), show(&ps.cover)));
            return r;
        }
        // request log for this uri
        let log: Vec<(&str, u64)> = obs
            .transcript
            .iter()
            .filter_map(|t| match t {
                Tx::PictureRequest { command, uri: u, offset, .. } if u == uri => Some((command.as_str(), *offset)),
                _ => None,
            })
            .collect();
        let mut it = log.iter();
        if it.next() != Some(&("readpicture", 0)) {
            r.fail(format!("first request is {:?}, expected readpicture at offset 0", log.first()));
            return r;
        }
        let data_cmd = if fallback {
            if it.next() != Some(&("albumart", 0)) {
                r.fail(format!("no fallback to albumart at offset 0: request log {log:?}"));
                return r;
            }
            "albumart"
        } else {
            "readpicture"
        };
        let rest: Vec<&(&str, u64)> = it.collect();
        match (failing.is_some() || matches!(want, Want::Art(Some(_))), size) {
            (true, Some(_)) => {
                // continuation requests: same command, offset = bytes served so far
                let mut served = sizes.first().copied().unwrap_or(0) as u64;
                let mut k = 1;
                for (cmd, off) in &rest {
                    if *cmd != data_cmd {
                        r.fail(format!("continuation request uses {cmd}, the data came from {data_cmd}: {log:?}"));
                        return r;
                    }
                    if *off != served {
                        r.fail(format!("continuation request at offset {off}, {served} bytes were served so far: {log:?}"));
                        return r;
                    }
                    served += sizes.get(k).copied().unwrap_or(0) as u64;
                    k += 1;
                }
                let total = 1 + rest.len();
                if total != chunks.unwrap() {
                    r.fail(format!("{total} data requests for {size:?} bytes at limit {limit} (reply sizes {sizes:?}, failing {failing:?}), expected {}: {log:?}", chunks.unwrap()));
                    return r;
                }
            }
            _ => {
                if !rest.is_empty() {
                    r.fail(format!("requests after the final answer: {log:?}"));
                    return r;
                }
            }
        }
    }
    r
}

fn picture_bytes(limit: usize) -> impl Strategy<Value = B> {
    let l = limit.max(1);
    let max = (40 * l).min(65_536);
    // rarely: many more chunks than usual (counters, thresholds)
    let many = (1100 * l).min(8_000);
    let size = prop_oneof![
        1 => Just(0usize),
        1 => Just(1usize),
        2 => prop_oneof![Just(l - 1), Just(l), Just(l + 1), Just(2 * l), Just(2 * l + 1), Just(3 * l - 1)],
        3 => 0..=max,
        1 => Just(max),
    ]
    .prop_map(move |s| s.min(max));
    let size = prop_oneof![40 => size, 1 => (max..=many.max(max)).boxed()];
    (size, any::<u8>(), any::<u8>(), 0..12u8).prop_map(|(n, a, step, head)| {
        let mut v: Vec<u8> = (0..n).map(|i| a.wrapping_add((i as u8).wrapping_mul(step | 1))).collect();
        // how the picture starts: arbitrary bytes, protocol look-alikes, or the signature of a real image
        // format (whatever the server says the type is - a client has no business second-guessing it)
        let l: &[u8] = match head {
            0..=3 => b"",
            4 | 5 => b"\nOK\nbinary: 3\nACK [5@0] {} x\n",
            6 | 7 => b"\x89PNG\r\n\x1a\n\0\0\0\rIHDR",
            8 | 9 => b"\xff\xd8\xff\xe0\0\x10JFIF\0",
            10 => b"GIF89a",
            _ => b"RIFF\x24\0\0\0WEBPVP8 ",
        };
        if n >= l.len() {
            v[..l.len()].copy_from_slice(l);
        }
        B(v)
    })
}

fn source(limit: usize, embedded: bool) -> impl Strategy<Value = PicSource> {
    let mime = if embedded {
        prop::option::of(prop_oneof![
            3 => Just("image/jpeg".to_string()),
            3 => Just("image/png".to_string()),
            1 => Just("image/gif".to_string()),
            1 => Just("image/webp".to_string()),
            1 => Just("IMAGE/PNG".to_string()),
            1 => Just("image/jpg".to_string()),
            1 => Just("application/octet-stream".to_string()),
            1 => Just("image/x-portable-pixmap; charset=binary".to_string()),
        ])
        .boxed()
    } else {
        Just(None).boxed()
    };
    prop_oneof![
        5 => (picture_bytes(limit), mime).prop_map(|(bytes, mime)| PicSource::Present(Pic { bytes, mime })),
        2 => Just(PicSource::Absent),
        1 => Just(PicSource::UnknownCommand),
        2 => prop_oneof![Just(1u64), Just(2), Just(3), Just(4), Just(50), Just(52), Just(55), 6..60u64].prop_map(PicSource::Error),
    ]
}

fn strategy(tier: Tier) -> BoxedStrategy<Script> {
    simgen::in_environment(strategy_plain(tier)).boxed()
}

fn strategy_plain(_tier: Tier) -> BoxedStrategy<Script> {
    let limit = prop_oneof![1 => 1..8usize, 2 => 8..600usize, 1 => Just(4096usize), 1 => Just(8192usize), 1 => 600..16_384usize];
    limit
        .prop_flat_map(|limit| (Just(limit), source(limit, true), source(limit, false)))
        .prop_flat_map(|(limit, embedded, cover)| {
            (
                (
                    Just(embedded),
                    Just(cover),
                    Just(limit),
                    prop_oneof![3 => Just(Vec::new()), 2 => prop::collection::vec(1..=limit.max(2), 1..5usize)],
                    prop::option::weighted(0.15, (1..6usize, prop_oneof![Just(50u64), Just(52), Just(5), Just(1), 2..60u64])),
                )
                    .prop_map(|(embedded, cover, limit, pattern, fail_at)| PictureServer { embedded, cover, limit, pattern, fail_at }),
                any::<u64>(),
                simgen::seg_pattern(),
                prop::collection::vec(
                    prop_oneof![
                        3 => simgen::issue(3),
                        2 => simgen::change_names(2).prop_map(|n| simgen::GenStep::Plain(Step::Change(n))),
                        1 => simgen::advance().prop_map(simgen::GenStep::Plain),
                    ],
                    0..4usize,
                ),
                any::<u16>(),
                any::<bool>(),
            )
        })
        .prop_map(|(ps, seed, seg, others, at, two)| {
            let mut gen = others;
            let i = crate::core::pick_idx(at, gen.len() + 1);
            // issue the art request together with whatever follows it, so the other activity
            // interleaves with the chunk requests
            // the song's URI: local paths, and the URI schemes MPD plays (streams, other storages) - which
            // song it is has no bearing on how its picture is fetched
            const URIS: [&str; 14] = [
                "dir/song 1.mp3", "b.flac", "http://radio.example.org:8000/stream.mp3", "https://example.org/a%20b.ogg", "file:///music/dir/c.flac",
                "nfs://server/export/d.mp3", "smb://host/share/e.wav", "cdda:///1", "a://b", "x", "Musik/\u{e4}\u{f6}\u{fc} - Lied.opus", "dir/sub/../song.mp3",
                "://", "dir/cover.jpg",
            ];
            let u1 = URIS[(seed % URIS.len() as u64) as usize];
            let i1 = (seed % URIS.len() as u64) as usize;
            let i2 = ((seed / 17) % URIS.len() as u64) as usize;
            let u2 = URIS[if i2 == i1 { (i1 + 1) % URIS.len() } else { i2 }];
            let art = simgen::GenStep::Plain(Step::Issue { caller: 7, req: Req::AlbumArt(u1.into()) });
            let mut together = vec![art];
            if two {
                together.push(simgen::GenStep::Plain(Step::Issue { caller: 8, req: Req::AlbumArt(u2.into()) }));
            }
            together.extend(gen.drain(i..));
            gen.push(simgen::GenStep::Together(together));
            // now and then an earlier caller asked for another picture and dropped its future while
            // the transfer was under way (reply bytes withheld, partly released, then all released)
            let gave_up = at % 5 == 0;
            if gave_up {
                let pre = vec![
                    simgen::GenStep::Plain(Step::Hold),
                    simgen::GenStep::Plain(Step::Issue { caller: 9, req: Req::AlbumArt("given up.mp3".into()) }),
                    simgen::GenStep::Plain(Step::Advance(1)),
                    simgen::GenStep::Plain(Step::Release(1 + (at as usize / 5) % 40)),
                    simgen::GenStep::Plain(Step::Cancel(0)),
                    simgen::GenStep::Plain(Step::ReleaseAll),
                ];
                gen.splice(0..0, pre);
            }
            let mut s = simgen::assemble(seed, seg, None, gen);
            s.picture = Some(ps);
            s
        })
        .boxed()
}

/// A transfer that needs more requests than fit a 16-bit counter.
#[derive(Debug, Clone, Serialize, Deserialize)]
pub struct ManyChunks {
    pub bytes: usize,
    pub limit: usize,
    pub cover: bool,
}

fn many_chunks_part() -> Box<dyn crate::core::Part> {
    Box::new(crate::core::ExhaustivePart {
        name: "many_chunks",
        rule: "one album_art call for a picture of 66 000 bytes served 1 byte per reply (66 000 requests; thorough: also 140 000 bytes at 2 per reply from the cover file after an unknown-command fallback, and 300 000 bytes at 4): bytes, MIME type and request log as in 'picture_server'. non-trivial = every case",
        space: Box::new(|t: Tier| {
            let mut v = vec![ManyChunks { bytes: 66_000, limit: 1, cover: false }];
            if t == Tier::Thorough {
                v.push(ManyChunks { bytes: 140_000, limit: 2, cover: true });
                v.push(ManyChunks { bytes: 300_000, limit: 4, cover: false });
            }
            Box::new(v.into_iter())
        }),
        check: Box::new(|m: &ManyChunks| {
            let pic = sim::Pic { bytes: crate::core::B((0..m.bytes).map(|i| (i % 251) as u8).collect()), mime: Some("image/png".into()) };
            let mut s = Script::new(vec![Step::Issue { caller: 7, req: Req::AlbumArt("dir/song 1.mp3".into()) }]);
            s.picture = Some(PictureServer {
                embedded: if m.cover { sim::PicSource::UnknownCommand } else { sim::PicSource::Present(pic.clone()) },
                cover: if m.cover { sim::PicSource::Present(sim::Pic { mime: None, ..pic }) } else { sim::PicSource::Absent },
                limit: m.limit,
                pattern: vec![],
                fail_at: None,
            });
            let mut r = check(&s);
            r.nontrivial();
            r.classes.clear();
            r.class("more_than_65535_requests");
            r
        }),
    })
}

pub fn property(_tier: Tier) -> Property {
    Property {
        id: "C17",
        level: "exploration",
        parts: vec![Box::new(RandomPart {
            name: "picture_server",
            rule: "proptest: chunk limit 1-16384; embedded and cover source each one of present (size from {0,1,L-1,L,L+1,2L,2L+1,3L-1,max} or random up to min(40L, 64 KiB), arbitrary bytes optionally starting with protocol look-alikes, MIME type present/absent on readpicture) / absent (bare OK) / unknown command (ACK 5) / ACK with another code; one or two concurrent Client::album_art calls issued together with 0-3 other requests, notifications and timer advances; any segmentation. Result must be Some((bytes, mime)) / None / the server's error exactly as the statement prescribes; the simulated server's request log must show readpicture at 0, the fallback probe exactly when required, continuation on the command that yielded data at offsets equal to the bytes served so far, and max(1, ceil(size/L)) data requests; other callers' replies as in C01. non-trivial = size not a multiple of L with >=2 chunks, a fallback, or concurrent activity",
            cases: (40_000, 5_000_000),
            strategy: Box::new(strategy),
            check: Box::new(check),
        }), many_chunks_part()],
        assumptions: vec![
            "the picture server follows the protocol reference: size/type/binary per chunk, 'type:' only on readpicture, at most L bytes per reply, an empty reply when there is no picture",
            "as C01",
        ],
        selftest: None,
    }
}
