//! C19 — frames and responses behave as ordered collections of what the server sent.
//! Model-based: a Vec model executed in lock-step with the real Frame / Response.

use std::collections::VecDeque;

use mpd_protocol::response::{Frame, Response};
use proptest::prelude::*;
use serde::{Deserialize, Serialize};

use crate::{
    core::{pick_idx, CaseResult, Property, RandomPart, Tier, B},
    streamlab::parse_all,
    wire::{self, AFrame, AResp, Ack, Item},
};

#[derive(Debug, Clone, Copy, Serialize, Deserialize, PartialEq, Eq)]
pub enum End {
    Front,
    Back,
    /// `nth(k)` / `nth_back(k)`: iterator methods a type may override
    Nth(u8),
    NthBack(u8),
}

/// What the model does for one step.
fn model_step<T>(m: &mut VecDeque<T>, e: End) -> Option<T> {
    match e {
        End::Front => m.pop_front(),
        End::Back => m.pop_back(),
        End::Nth(k) => {
            for _ in 0..k {
                m.pop_front()?;
            }
            m.pop_front()
        }
        End::NthBack(k) => {
            for _ in 0..k {
                m.pop_back()?;
            }
            m.pop_back()
        }
    }
}

fn real_step<I: DoubleEndedIterator>(it: &mut I, e: End) -> Option<I::Item> {
    match e {
        End::Front => it.next(),
        End::Back => it.next_back(),
        End::Nth(k) => it.nth(k as usize),
        End::NthBack(k) => it.nth_back(k as usize),
    }
}

/// Whole-iterator consumers and adaptors on fresh iterators (`make` creates one): last, count, fold,
/// skip(k), step_by(k), rev().skip(k), nth(k) for k around the length - against the plain item list.
pub fn adaptors_agree<I, T>(what: &str, exact: bool, make: impl Fn() -> I, items: &[T], conv: impl Fn(I::Item) -> T + Copy) -> Result<(), String>
where
    I: DoubleEndedIterator,
    T: PartialEq + Clone + std::fmt::Debug,
{
    let n = items.len();
    if make().count() != n {
        return Err(format!("{what}.count() = {}, {n} items", make().count()));
    }
    if make().last().map(conv) != items.last().cloned() {
        return Err(format!("{what}.last() differs from the last of {n} items"));
    }
    if make().fold(0usize, |a, _| a + 1) != n || make().rfold(0usize, |a, _| a + 1) != n {
        return Err(format!("{what}.fold()/rfold() do not visit {n} items"));
    }
    // the bulk consumers (a type may override fold / rfold / try_fold / try_rfold, which for_each, rev().
    // for_each, find, rfind, position, all, any, last, max, min ... are built on): same items, same order
    let fwd: Vec<T> = items.to_vec();
    let bwd: Vec<T> = items.iter().rev().cloned().collect();
    let push = |mut a: Vec<T>, x: I::Item| {
        a.push(conv(x));
        a
    };
    if make().fold(Vec::new(), push) != fwd {
        return Err(format!("{what}.fold() visits {:?}, the items are {fwd:?}", make().fold(Vec::new(), push)));
    }
    if make().rfold(Vec::new(), push) != bwd {
        return Err(format!("{what}.rfold() visits {:?}, the items from the back are {bwd:?}", make().rfold(Vec::new(), push)));
    }
    let mut seen = Vec::new();
    make().rev().for_each(|x| seen.push(conv(x)));
    if seen != bwd {
        return Err(format!("{what}.rev().for_each() visits {seen:?}, expected {bwd:?}"));
    }
    let mut seen = Vec::new();
    make().for_each(|x| seen.push(conv(x)));
    if seen != fwd {
        return Err(format!("{what}.for_each() visits {seen:?}, expected {fwd:?}"));
    }
    if make().rev().last().map(conv) != items.first().cloned() {
        return Err(format!("{what}.rev().last() differs from the first of {n} items"));
    }
    // short-circuiting consumers (try_fold / try_rfold): stop after k items from either end
    for k in [0usize, 1, 2, n / 2, n] {
        let mut seen = Vec::new();
        let _ = make().try_fold((), |(), x| {
            if seen.len() == k {
                return Err(());
            }
            seen.push(conv(x));
            Ok(())
        });
        if seen != fwd[..k.min(n)] {
            return Err(format!("{what}.try_fold() stopping after {k} visits {seen:?}, expected {:?}", &fwd[..k.min(n)]));
        }
        let mut seen = Vec::new();
        let _ = make().try_rfold((), |(), x| {
            if seen.len() == k {
                return Err(());
            }
            seen.push(conv(x));
            Ok(())
        });
        if seen != bwd[..k.min(n)] {
            return Err(format!("{what}.try_rfold() stopping after {k} visits {seen:?}, expected {:?}", &bwd[..k.min(n)]));
        }
        // a partly consumed iterator, then the bulk consumers on the rest
        let mut it = make();
        for _ in 0..k.min(2) {
            let _ = it.next();
            let _ = it.next_back();
        }
        let rest: Vec<T> = if 2 * k.min(2) >= n { Vec::new() } else { fwd[k.min(2)..n - k.min(2)].to_vec() };
        let got = it.rfold(Vec::new(), push);
        let want: Vec<T> = rest.iter().rev().cloned().collect();
        if got != want {
            return Err(format!("{what}: after {} next() and next_back() calls rfold() visits {got:?}, expected {want:?}", k.min(2)));
        }
    }
    for k in [0usize, 1, 2, n.saturating_sub(1), n, n + 1, n + 3] {
        let got: Vec<T> = make().skip(k).take(n + 2).map(conv).collect();
        let want: Vec<T> = items.iter().skip(k).cloned().collect();
        if got != want {
            return Err(format!("{what}.skip({k}) yields {got:?}, the items from {k} on are {want:?}"));
        }
        let got: Vec<T> = make().rev().skip(k).take(n + 2).map(conv).collect();
        let want: Vec<T> = items.iter().rev().skip(k).cloned().collect();
        if got != want {
            return Err(format!("{what}.rev().skip({k}) yields {got:?}, expected {want:?}"));
        }
        if make().nth(k).map(conv) != items.get(k).cloned() {
            return Err(format!("{what}.nth({k}) = {:?}, item {k} is {:?}", make().nth(k).map(conv), items.get(k)));
        }
        if make().nth_back(k).map(conv) != items.iter().rev().nth(k).cloned() {
            return Err(format!("{what}.nth_back({k}) differs from item {k} from the back"));
        }
        if k >= 1 {
            let got: Vec<T> = make().step_by(k).take(n + 2).map(conv).collect();
            let want: Vec<T> = items.iter().step_by(k).cloned().collect();
            if got != want {
                return Err(format!("{what}.step_by({k}) yields {got:?}, expected {want:?}"));
            }
        }
        let mut it = make();
        let _ = it.nth(k);
        let left = n.saturating_sub(k + 1);
        let (lo, hi) = it.size_hint();
        if (exact && (lo, hi) != (left, Some(left))) || lo > left || hi.is_some_and(|h| h < left) {
            return Err(format!("{what}: after nth({k}) size_hint is {:?}, {left} items are left", (lo, hi)));
        }
    }
    Ok(())
}

/// What `ExactSizeIterator` adds: `len()` at every stage, and the adaptors that rely on it
/// (enumerate / zip / skip / take from the back, rposition).
pub fn exact_size_agree<I>(what: &str, make: impl Fn() -> I, n: usize) -> Result<(), String>
where
    I: ExactSizeIterator + DoubleEndedIterator,
{
    let mut it = make();
    for left in (0..=n).rev() {
        if it.len() != left {
            return Err(format!("{what}: len() = {} with {left} of {n} items left", it.len()));
        }
        let step = if left % 2 == 0 { it.next().is_some() } else { it.next_back().is_some() };
        if step != (left > 0) {
            return Err(format!("{what}: next()/next_back() with {left} items left returned {}", if step { "an item" } else { "None" }));
        }
    }
    if make().enumerate().next_back().map(|(i, _)| i) != n.checked_sub(1) {
        return Err(format!("{what}.enumerate().next_back() does not carry index {:?}", n.checked_sub(1)));
    }
    if make().rposition(|_| true) != n.checked_sub(1) {
        return Err(format!("{what}.rposition(|_| true) is not {:?}", n.checked_sub(1)));
    }
    for k in [0usize, 1, n / 2, n, n + 1] {
        if make().skip(k).len() != n.saturating_sub(k) || make().take(k).len() != k.min(n) {
            return Err(format!("{what}.skip({k}).len() / take({k}).len() wrong for {n} items"));
        }
        if make().skip(k).next_back().is_some() != (k < n) || make().take(k).next_back().is_some() != (k.min(n) > 0) {
            return Err(format!("{what}.skip({k}).next_back() / take({k}).next_back() wrong for {n} items"));
        }
        if make().zip(0..k).next_back().map(|(_, j)| j) != k.min(n).checked_sub(1) {
            return Err(format!("{what}.zip(0..{k}).next_back() wrong for {n} items"));
        }
    }
    Ok(())
}

/// `FusedIterator`: once either end has reported None, every later call from either end reports None.
pub fn fused_agree<I: DoubleEndedIterator>(what: &str, mut it: I) -> Result<(), String> {
    let mut n = 0usize;
    while it.next().is_some() {
        n += 1;
        if n > 10_000_000 {
            return Err(format!("{what} never ends"));
        }
    }
    for k in 0..4 {
        let again = if k % 2 == 0 { it.next().is_some() } else { it.next_back().is_some() };
        if again {
            return Err(format!("{what} yields an item after it had reported the end ({n} items)"));
        }
    }
    Ok(())
}

#[derive(Debug, Clone, Serialize, Deserialize)]
pub enum FOp {
    Find(u16),
    Get(u16),
    TakeBinary,
    Binary,
    HasBinary,
    FieldsLen,
    IsEmpty,
    /// a fresh `fields()` iterator advanced from the given ends (then dropped)
    Walk(Vec<End>),
    /// lookup with a key that is a sub-slice (`cut` picks start and end) of a field name borrowed from the
    /// twin frame received on the same connection - same allocation, other length (`get`: and removal)
    SliceOfOwnName { which: u16, cut: u16, remove: bool },
    /// `get` with a key whose `as_ref()` panics on its n-th call (panic contained): the frame stays as it was
    GetWithPanickingKey(u8),
    /// two `fields()` iterators alive at the same time, advanced alternately (`turns`: false = first,
    /// true = second), with the shared-reference queries find / fields_len / is_empty made in between
    /// (what `frame.fields().zip(frame.fields().skip(1))` or a lookup inside a loop over the fields do)
    Walk2 { a: Vec<End>, b: Vec<End>, turns: Vec<bool>, probe: u16 },
    /// `(&frame).into_iter()` walked forward to the end
    RefIter,
    /// continue on a clone (the original is dropped)
    Clone,
}

#[derive(Debug, Clone, Serialize, Deserialize)]
pub enum OwnedStep {
    Next,
    NextBack,
    TakeBinary,
}

#[derive(Debug, Clone, Serialize, Deserialize)]
pub struct FrameCase {
    pub frame: AFrame,
    pub ops: Vec<FOp>,
    pub owned: Vec<OwnedStep>,
}

struct Model {
    fields: Vec<Option<(String, String)>>,
    binary: Option<Vec<u8>>,
}

impl Model {
    fn live(&self) -> impl DoubleEndedIterator<Item = &(String, String)> {
        self.fields.iter().filter_map(|f| f.as_ref())
    }
}

fn key_candidates(frame: &AFrame) -> Vec<String> {
    let mut keys: Vec<String> = Vec::new();
    for it in &frame.items {
        if let Item::Field(k, _) = it {
            if !keys.contains(k) {
                keys.push(k.clone());
            }
        }
    }
    let mut out = keys.clone();
    for k in &keys {
        for v in [k.to_uppercase(), k.to_lowercase(), format!("{k}x")] {
            if !out.contains(&v) {
                out.push(v);
            }
        }
    }
    out.push("missing".into());
    out.push(String::new());
    out
}

pub fn check_frame(case: &FrameCase) -> CaseResult {
    let mut r = CaseResult::new();
    // the same frame twice on one connection: the second copy (`twin`) is never modified; its field
    // names are the connection's interned names, the very allocations the frame under test uses too
    let bytes = wire::encode(&[AResp::Single(case.frame.clone()), AResp::Single(case.frame.clone())]).bytes;
    let mut resps = match parse_all(&bytes) {
        Ok(v) => v,
        Err(e) => {
            r.fail(format!("well-formed frame not parsed: {e}"));
            return r;
        }
    };
    if resps.len() != 2 {
        r.fail(format!("{} responses parsed from two", resps.len()));
        return r;
    }
    let twin: Option<Frame> = resps.pop().unwrap().into_single_frame().ok();
    let mut frame: Frame = match resps.pop().unwrap().into_single_frame() {
        Ok(f) => f,
        Err(e) => {
            r.fail(format!("into_single_frame gave an error for a successful response: {e:?}"));
            return r;
        }
    };
    let exp = case.frame.expected();
    let mut m = Model {
        fields: exp.fields.iter().cloned().map(Some).collect(),
        binary: exp.binary.as_ref().map(|b| b.0.clone()),
    };
    let keys = key_candidates(&case.frame);
    let dup = {
        let mut ks: Vec<&String> = exp.fields.iter().map(|(k, _)| k).collect();
        ks.sort();
        ks.windows(2).any(|w| w[0] == w[1])
    };
    r.class_if(dup, "duplicate_keys");
    r.class_if(m.binary.is_some(), "with_binary");
    let mut removed = false;
    let mut both_ends_after_removal = false;

    macro_rules! bail {
        ($($t:tt)+) => {{ r.fail(format!($($t)+)); return r; }};
    }

    for (i, op) in case.ops.iter().enumerate() {
        match op {
            FOp::Find(k) => {
                let key = &keys[pick_idx(*k, keys.len())];
                let want = m.live().find(|(kk, _)| kk == key).map(|(_, v)| v.as_str());
                let got = frame.find(key);
                if got != want {
                    bail!("op {i} find({key:?}) = {got:?}, model {want:?}");
                }
            }
            FOp::Get(k) => {
                let key = &keys[pick_idx(*k, keys.len())];
                let want = m
                    .fields
                    .iter_mut()
                    .find(|f| f.as_ref().is_some_and(|(kk, _)| kk == key))
                    .and_then(Option::take)
                    .map(|(_, v)| v);
                let got = frame.get(key);
                if got != want {
                    bail!("op {i} get({key:?}) = {got:?}, model {want:?}");
                }
                if want.is_some() {
                    removed = true;
                }
            }
            FOp::TakeBinary => {
                let want = m.binary.take();
                let got = frame.take_binary().map(|b| b.to_vec());
                if got != want {
                    bail!("op {i} take_binary() = {:?} bytes, model {:?}", got.map(|b| b.len()), want.map(|b| b.len()));
                }
            }
            FOp::Binary => {
                if frame.binary() != m.binary.as_deref() {
                    bail!("op {i} binary() disagrees with the model");
                }
            }
            FOp::HasBinary => {
                if frame.has_binary() != m.binary.is_some() {
                    bail!("op {i} has_binary() = {}, model {}", frame.has_binary(), m.binary.is_some());
                }
            }
            FOp::FieldsLen => {
                let want = m.live().count();
                if frame.fields_len() != want {
                    bail!("op {i} fields_len() = {}, model {want}", frame.fields_len());
                }
            }
            FOp::IsEmpty => {
                let want = m.live().count() == 0 && m.binary.is_none();
                if frame.is_empty() != want {
                    bail!("op {i} is_empty() = {}, model {want}", frame.is_empty());
                }
            }
            FOp::Walk(ends) => {
                let mut model: VecDeque<&(String, String)> = m.live().collect();
                let mut it = frame.fields();
                let (mut f, mut b) = (false, false);
                for (j, e) in ends.iter().enumerate() {
                    f |= matches!(e, End::Front | End::Nth(_));
                    b |= matches!(e, End::Back | End::NthBack(_));
                    let (got, want) = (real_step(&mut it, *e), model_step(&mut model, *e));
                    let want = want.map(|(k, v)| (k.as_str(), v.as_str()));
                    if got != want {
                        bail!("op {i} fields() step {j} {e:?} = {got:?}, model {want:?}");
                    }
                }
                if removed && f && b {
                    both_ends_after_removal = true;
                }
            }
            FOp::SliceOfOwnName { which, cut, remove } => {
                let Some(tw) = twin.as_ref() else { continue };
                let names: Vec<&str> = tw.fields().map(|(k, _)| k).collect();
                if names.is_empty() {
                    continue;
                }
                let name = names[pick_idx(*which, names.len())];
                // prefixes (incl. the empty one and the whole name), and now and then a suffix
                let (a, b) = match cut % 4 {
                    0 => (0, 0),
                    1 => (0, name.len()),
                    2 => (0, (*cut as usize / 4) % (name.len() + 1)),
                    _ => ((*cut as usize / 4) % (name.len() + 1), name.len()),
                };
                let (Some(key), true) = (name.get(a..b), name.is_char_boundary(a) && name.is_char_boundary(b)) else { continue };
                r.class("key_is_slice_of_interned_name");
                let want = m.live().find(|(kk, _)| kk == key).map(|(_, v)| v.clone());
                if *remove {
                    let got = frame.get(key);
                    if got != want {
                        bail!("op {i} get({key:?}) with the key a slice of the interned name {name:?} = {got:?}, model {want:?}");
                    }
                    if want.is_some() {
                        let pos = m.fields.iter().position(|f| f.as_ref().is_some_and(|(kk, _)| kk == key)).unwrap();
                        m.fields[pos] = None;
                        removed = true;
                    }
                } else if frame.find(key) != want.as_deref() {
                    bail!("op {i} find({key:?}) with the key a slice of the interned name {name:?} = {:?}, model {want:?}", frame.find(key));
                }
            }
            FOp::GetWithPanickingKey(n) => {
                struct Bomb<'a>(&'a str, std::cell::Cell<u8>);
                impl AsRef<str> for Bomb<'_> {
                    fn as_ref(&self) -> &str {
                        if self.1.get() == 0 {
                            std::panic::resume_unwind(Box::new("harness: key gives up"));
                        }
                        self.1.set(self.1.get() - 1);
                        self.0
                    }
                }
                // a key no field has, so a scan that survives removes nothing
                let before = frame.fields_len();
                let _ = crate::core::catch(|| frame.get(Bomb("no-such-key", std::cell::Cell::new(*n))));
                let _ = crate::core::catch(|| frame.find(Bomb("no-such-key", std::cell::Cell::new(*n))));
                if frame.fields_len() != before || frame.fields_len() != m.live().count() {
                    bail!("op {i}: after a get() whose key panicked in as_ref() (call {n}, contained) the frame has {} fields, it had {before}", frame.fields_len());
                }
                r.class("lookup_key_panicked");
            }
            FOp::Walk2 { a, b, turns, probe } => {
                let mut models: [VecDeque<&(String, String)>; 2] = [m.live().collect(), m.live().collect()];
                let mut its = [frame.fields(), frame.fields()];
                let plans = [a, b];
                let mut at = [0usize, 0usize];
                let keys = key_candidates(&case.frame);
                for (j, second) in turns.iter().chain([false, true, false, true].iter()).enumerate() {
                    let w = usize::from(*second);
                    let Some(e) = plans[w].get(at[w]).copied() else { continue };
                    at[w] += 1;
                    let (got, want) = (real_step(&mut its[w], e), model_step(&mut models[w], e));
                    let want = want.map(|(k, v)| (k.as_str(), v.as_str()));
                    if got != want {
                        bail!("op {i}: two fields() iterators alive, step {j} of iterator {w} {e:?} = {got:?}, model {want:?}");
                    }
                    // queries through the shared reference while both iterators are pending
                    if !keys.is_empty() && j % 2 == 0 {
                        let key = &keys[pick_idx(probe.wrapping_add((j as u16).wrapping_mul(7919)), keys.len())];
                        let want = m.live().find(|(k, _)| k == key).map(|(_, v)| v.as_str());
                        if frame.find(key) != want {
                            bail!("op {i}: find({key:?}) while two fields() iterators are pending = {:?}, model {want:?}", frame.find(key));
                        }
                    }
                    if frame.fields_len() != m.live().count() || frame.is_empty() != (m.live().count() == 0 && m.binary.is_none()) {
                        bail!("op {i}: fields_len() = {} / is_empty() = {} while two fields() iterators are pending, model has {} fields", frame.fields_len(), frame.is_empty(), m.live().count());
                    }
                }
                drop(its);
                r.class("two_iterators_alive");
            }
            FOp::RefIter => {
                let got: Vec<(&str, &str)> = (&frame).into_iter().collect();
                let want: Vec<(&str, &str)> = m.live().map(|(k, v)| (k.as_str(), v.as_str())).collect();
                if got != want {
                    bail!("op {i} (&frame).into_iter() = {got:?}, model {want:?}");
                }
                let got_rev: Vec<(&str, &str)> = frame.fields().rev().collect();
                let want_rev: Vec<(&str, &str)> = want.iter().rev().copied().collect();
                if got_rev != want_rev {
                    bail!("op {i} fields().rev() = {got_rev:?}, model {want_rev:?}");
                }
                if let Err(e) = adaptors_agree("fields()", false, || frame.fields(), &want, |x| x) {
                    bail!("op {i} {e}");
                }
                if let Err(e) = fused_agree("fields()", frame.fields()).and_then(|()| fused_agree("frame.clone().into_iter()", frame.clone().into_iter())) {
                    bail!("op {i} {e}");
                }
                let owned: Vec<(String, String)> = want.iter().map(|(k, v)| (k.to_string(), v.to_string())).collect();
                if let Err(e) = adaptors_agree("frame.clone().into_iter()", false, || frame.clone().into_iter(), &owned, |(k, v)| (k.to_string(), v)) {
                    bail!("op {i} {e}");
                }
            }
            FOp::Clone => {
                let c = frame.clone();
                if c != frame {
                    bail!("op {i} clone differs from the original");
                }
                frame = c;
            }
        }
    }

    // owned iteration
    let mut model: VecDeque<(String, String)> = m.live().cloned().collect();
    let mut mbin = m.binary.clone();
    let mut it = frame.into_iter();
    let (mut f, mut b) = (false, false);
    for (j, s) in case.owned.iter().enumerate() {
        match s {
            OwnedStep::Next | OwnedStep::NextBack => {
                let (got, want) = if matches!(s, OwnedStep::Next) {
                    f = true;
                    (it.next(), model.pop_front())
                } else {
                    b = true;
                    (it.next_back(), model.pop_back())
                };
                let got = got.map(|(k, v)| (k.to_string(), v));
                if got != want {
                    bail!("into_iter() step {j} {s:?} = {got:?}, model {want:?}");
                }
            }
            OwnedStep::TakeBinary => {
                let want = mbin.take();
                let got = it.take_binary().map(|b| b.to_vec());
                if got != want {
                    bail!("IntoIter::take_binary() step {j} disagrees with the model");
                }
            }
        }
    }
    // drain the rest forward: nothing dropped, duplicated or invented
    let rest: Vec<(String, String)> = it.by_ref().take(model.len() + 2).map(|(k, v)| (k.to_string(), v)).collect();
    let want: Vec<(String, String)> = model.into_iter().collect();
    if rest != want {
        bail!("remaining items of into_iter() = {rest:?}, model {want:?}");
    }
    if it.next().is_some() || it.next_back().is_some() {
        bail!("into_iter() yields items after exhaustion");
    }
    if removed && f && b {
        both_ends_after_removal = true;
    }
    r.class_if(removed, "removal");
    if both_ends_after_removal {
        r.class("both_ends_after_removal");
        r.nontrivial();
    }
    r
}

#[derive(Debug, Clone, Serialize, Deserialize)]
pub struct RespCase {
    pub resp: AResp,
    pub borrowed: Vec<End>,
    pub owned: Vec<End>,
}

fn obs_frame(f: &Frame) -> wire::OFrame {
    wire::OFrame {
        fields: f.fields().map(|(k, v)| (k.to_string(), v.to_string())).collect(),
        binary: f.binary().map(B::from),
    }
}

pub fn check_resp(case: &RespCase) -> CaseResult {
    let mut r = CaseResult::new();
    let bytes = wire::encode(std::slice::from_ref(&case.resp)).bytes;
    let mut resps = match parse_all(&bytes) {
        Ok(v) => v,
        Err(e) => {
            r.fail(format!("well-formed response not parsed: {e}"));
            return r;
        }
    };
    if resps.len() != 1 {
        r.fail(format!("{} responses parsed from one", resps.len()));
        return r;
    }
    let resp: Response = resps.pop().unwrap();
    let exp = case.resp.expected();
    // model: frames in order, then the error
    #[derive(Debug, Clone, PartialEq)]
    enum It {
        F(wire::OFrame),
        E(wire::OErr),
    }
    let mut items: VecDeque<It> = exp.frames.iter().cloned().map(It::F).collect();
    if let Some(e) = &exp.error {
        items.push_back(It::E(e.clone()));
    }
    let n = items.len();
    r.class_if(exp.error.is_some(), "with_error");
    r.class_if(exp.frames.len() >= 2, "two_or_more_frames");

    macro_rules! bail {
        ($($t:tt)+) => {{ r.fail(format!($($t)+)); return r; }};
    }
    if resp.successful_frames() != exp.frames.len() {
        bail!("successful_frames() = {}, encoded {}", resp.successful_frames(), exp.frames.len());
    }
    if resp.is_error() != exp.error.is_some() || resp.is_success() == exp.error.is_some() {
        bail!("is_error()/is_success() disagree with the encoded response");
    }
    let conv_err = |e: &mpd_protocol::response::Error| wire::OErr {
        code: e.code,
        index: e.command_index,
        command: e.current_command.as_deref().map(str::to_string),
        message: e.message.to_string(),
    };

    // borrowed iterator, mixed ends, exact size at every step
    {
        let mut model = items.clone();
        let mut it = resp.frames();
        let (mut f, mut b) = (false, false);
        let steps = case.borrowed.iter().copied().chain(std::iter::repeat(End::Front).take(n + 2));
        for (j, e) in steps.enumerate() {
            let len = model.len();
            if it.size_hint() != (len, Some(len)) || it.len() != len {
                bail!("frames() before step {j}: size_hint {:?} / len {}, model {len}", it.size_hint(), it.len());
            }
            f |= matches!(e, End::Front | End::Nth(_));
            b |= matches!(e, End::Back | End::NthBack(_));
            let (got, want) = (real_step(&mut it, e), model_step(&mut model, e));
            let got = got.map(|x| match x {
                Ok(fr) => It::F(obs_frame(fr)),
                Err(er) => It::E(conv_err(er)),
            });
            if got != want {
                bail!("frames() step {j} {e:?} = {got:?}, model {want:?}");
            }
        }
        if f && b && n >= 2 {
            r.class("borrowed_mixed_ends");
            r.nontrivial();
        }
        // IntoIterator for &Response is the same iterator
        let fwd: Vec<It> = (&resp)
            .into_iter()
            .take(n + 2)
            .map(|x| match x {
                Ok(fr) => It::F(obs_frame(fr)),
                Err(er) => It::E(conv_err(er)),
            })
            .collect();
        if fwd != items.iter().cloned().collect::<Vec<_>>() {
            bail!("(&response).into_iter() differs from frames-then-error");
        }
        let back: Vec<It> = resp
            .frames()
            .rev()
            .take(n + 2)
            .map(|x| match x {
                Ok(fr) => It::F(obs_frame(fr)),
                Err(er) => It::E(conv_err(er)),
            })
            .collect();
        if back != items.iter().rev().cloned().collect::<Vec<_>>() {
            bail!("frames().rev() differs from error-then-frames-reversed: {} items for {n}", back.len());
        }
    }

    // whole-iterator consumers and adaptors, borrowed and owned
    {
        let all: Vec<It> = items.iter().cloned().collect();
        if let Err(e) = adaptors_agree("frames()", true, || resp.frames(), &all, |x| match x {
            Ok(fr) => It::F(obs_frame(fr)),
            Err(er) => It::E(conv_err(er)),
        }) {
            bail!("{e}");
        }
        if let Err(e) = adaptors_agree("response.clone().into_iter()", true, || resp.clone().into_iter(), &all, |x| match x {
            Ok(fr) => It::F(obs_frame(&fr)),
            Err(er) => It::E(conv_err(&er)),
        }) {
            bail!("{e}");
        }
    }

    // ExactSizeIterator and FusedIterator are implemented for both: len() at every stage, the adaptors
    // built on it, and None for good once exhausted
    {
        let n = items.len();
        for res in [
            exact_size_agree("frames()", || resp.frames(), n),
            exact_size_agree("response.clone().into_iter()", || resp.clone().into_iter(), n),
            fused_agree("frames()", resp.frames()),
            fused_agree("response.clone().into_iter()", resp.clone().into_iter()),
        ] {
            if let Err(e) = res {
                bail!("{e}");
            }
        }
    }

    // into_single_frame on a clone: the first item
    {
        let got = match resp.clone().into_single_frame() {
            Ok(f) => It::F(obs_frame(&f)),
            Err(e) => It::E(conv_err(&e)),
        };
        if Some(&got) != items.front() {
            bail!("into_single_frame() = {got:?}, first item is {:?}", items.front());
        }
    }

    // owned iterator
    {
        let mut model = items.clone();
        let mut it = resp.into_iter();
        let (mut f, mut b) = (false, false);
        let steps = case.owned.iter().copied().chain(std::iter::repeat(End::Back).take(n + 2));
        for (j, e) in steps.enumerate() {
            let len = model.len();
            if it.size_hint() != (len, Some(len)) || it.len() != len {
                bail!("into_iter() before step {j}: size_hint {:?} / len {}, model {len}", it.size_hint(), it.len());
            }
            f |= matches!(e, End::Front | End::Nth(_));
            b |= matches!(e, End::Back | End::NthBack(_));
            let (got, want) = (real_step(&mut it, e), model_step(&mut model, e));
            let got = got.map(|x| match x {
                Ok(fr) => It::F(obs_frame(&fr)),
                Err(er) => It::E(conv_err(&er)),
            });
            if got != want {
                bail!("into_iter() step {j} {e:?} = {got:?}, model {want:?}");
            }
        }
        if f && b && n >= 2 {
            r.class("owned_mixed_ends");
            r.nontrivial();
        }
    }
    r
}

fn dup_frame() -> impl Strategy<Value = AFrame> {
    let key = prop_oneof![
        Just("a"), Just("A"), Just("b"), Just("file"), Just("File"), Just("Artist"), Just("artist"), Just("x-y"), Just("changed"),
    ]
    .prop_map(str::to_string);
    (
        prop::collection::vec((prop_oneof![4 => key, 1 => wire::key()], "[a-z0-9 ]{0,6}"), 0..=12usize),
        prop::option::weighted(0.4, prop::collection::vec(any::<u8>(), 0..12usize)),
    )
        .prop_map(|(fields, bin)| {
            let mut items: Vec<Item> = fields
                .into_iter()
                .map(|(k, v)| {
                    let v = if k == "binary" { format!("x{v}") } else { v };
                    Item::Field(k, v)
                })
                .collect();
            if let Some(b) = bin {
                items.push(Item::Binary(B(b)));
            }
            AFrame { items }
        })
}

/// 16-40 lines over a tiny key/value pool (adjacent identical lines are common), for removal-heavy
/// operation sequences
fn big_dup_frame() -> impl Strategy<Value = AFrame> {
    prop_oneof![10 => 16..=40usize, 1 => 60..=300usize].prop_flat_map(|n| prop::collection::vec((prop_oneof![Just("a"), Just("b"), Just("Genre"), Just("A")], prop_oneof![Just("x"), Just("y"), Just("")]), n..=n)).prop_map(|fields| AFrame {
        items: fields.into_iter().map(|(k, v)| Item::Field(k.to_string(), v.to_string())).collect(),
    })
}

fn end() -> impl Strategy<Value = End> {
    prop_oneof![4 => Just(End::Front), 4 => Just(End::Back), 1 => (0..4u8).prop_map(End::Nth), 1 => (0..4u8).prop_map(End::NthBack)]
}

fn fop() -> impl Strategy<Value = FOp> {
    prop_oneof![
        3 => any::<u16>().prop_map(FOp::Find),
        5 => any::<u16>().prop_map(FOp::Get),
        1 => Just(FOp::TakeBinary),
        1 => Just(FOp::Binary),
        1 => Just(FOp::HasBinary),
        2 => Just(FOp::FieldsLen),
        1 => Just(FOp::IsEmpty),
        4 => prop::collection::vec(end(), 0..16usize).prop_map(FOp::Walk),
        3 => (any::<u16>(), any::<u16>(), any::<bool>()).prop_map(|(which, cut, remove)| FOp::SliceOfOwnName { which, cut, remove }),
        1 => (0..20u8).prop_map(FOp::GetWithPanickingKey),
        2 => (prop::collection::vec(end(), 0..8usize), prop::collection::vec(end(), 0..8usize), prop::collection::vec(any::<bool>(), 0..16usize), any::<u16>())
            .prop_map(|(a, b, turns, probe)| FOp::Walk2 { a, b, turns, probe }),
        1 => Just(FOp::RefIter),
        1 => Just(FOp::Clone),
    ]
}

pub fn property(_tier: Tier) -> Property {
    Property {
        id: "C19",
        level: "exploration",
        parts: vec![
            Box::new(RandomPart {
                name: "frame_ops",
                rule: "proptest: frame with 0-12 fields from a small key pool (duplicates, keys differing only in case) +- binary, or 16-40 lines over a tiny key/value pool with 10-80 mostly-get operations, obtained through the real parser; up to 30 operations find/get/take_binary/binary/has_binary/fields_len/is_empty/partial fields() walks from both ends/(&frame).into_iter()/clone, then into_iter() with mixed next/next_back/take_binary and a drain; every return value compared with a Vec<Option<(k,v)>> + Option<bytes> model. non-trivial = a removal followed by iteration from both ends; distinct by serialised case",
                cases: (100_000, 10_000_000),
                strategy: Box::new(|_t| {
                    prop_oneof![
                        5 => (dup_frame(), prop::collection::vec(fop(), 0..30usize)).boxed(),
                        1 => (big_dup_frame(), prop::collection::vec(prop_oneof![6 => any::<u16>().prop_map(FOp::Get), 2 => fop()], 10..80usize)).boxed(),
                    ]
                    .prop_flat_map(|(frame, ops)| (
                        Just(frame),
                        Just(ops),
                        prop::collection::vec(
                            prop_oneof![4 => Just(OwnedStep::Next), 4 => Just(OwnedStep::NextBack), 1 => Just(OwnedStep::TakeBinary)],
                            0..14usize,
                        ),
                    ))
                        .prop_map(|(frame, ops, owned)| FrameCase { frame, ops, owned })
                        .prop_map(|c| c)
                        .boxed()
                        .prop_flat_map(|c| crate::streamlab::on_used_connection(Just(c)))
                        .boxed()
                }),
                check: Box::new(|u: &crate::streamlab::OnUsedConnection<_>| {
                    let mut r = crate::streamlab::with_history(&u.history, || check_frame(&u.case));
                    u.classify(&mut r);
                    r
                }),
            }),
            Box::new(RandomPart {
                name: "response_iter",
                rule: "proptest: response with 0-6 frames +- error through the real parser; frames() and into_iter() advanced from generated ends until exhausted (+2 more calls), size_hint/len checked before every step; (&response).into_iter(), frames().rev(), successful_frames, is_error/is_success, into_single_frame compared with a frames-then-error VecDeque model. non-trivial = >=2 items walked from both ends",
                cases: (60_000, 6_000_000),
                strategy: Box::new(|_t| {
                    let fr = || wire::frame(3, 20, 20);
                    let resp = prop_oneof![
                        2 => fr().prop_map(AResp::Single),
                        3 => prop::collection::vec(fr(), 1..=6usize).prop_map(AResp::List),
                        4 => (prop::collection::vec(fr(), 0..=6usize), fr(), wire::ack())
                            .prop_map(|(completed, partial, ack): (Vec<AFrame>, AFrame, Ack)| AResp::Failed { completed, partial, ack }),
                    ];
                    (resp, prop::collection::vec(end(), 0..10usize), prop::collection::vec(end(), 0..10usize))
                        .prop_map(|(resp, borrowed, owned)| RespCase { resp, borrowed, owned })
                        .boxed()
                        .prop_flat_map(|c| crate::streamlab::on_used_connection(Just(c)))
                        .boxed()
                }),
                check: Box::new(|u: &crate::streamlab::OnUsedConnection<_>| {
                    let mut r = crate::streamlab::with_history(&u.history, || check_resp(&u.case));
                    u.classify(&mut r);
                    r
                }),
            }),
        ],
        assumptions: vec!["the Vec/VecDeque model is the specification of 'ordered multimap' / 'frames then error'"],
        selftest: None,
    }
}
