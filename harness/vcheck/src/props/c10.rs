//! C10 — end of stream is clean only on a response boundary (cut-point enumeration).

use proptest::prelude::*;
use serde::{Deserialize, Serialize};

use crate::{
    core::{splitmix64, CaseResult, Property, RandomPart, Tier},
    seg::Seg,
    streamlab::{eof, run, Flavour, Terminal, GREETING},
    wire::{self, AResp, Loc},
};

#[derive(Debug, Clone, Serialize, Deserialize)]
pub struct Case {
    pub resps: Vec<AResp>,
    pub pick: u64,
}

fn cut_positions(enc: &wire::Encoded, exhaustive_up_to: usize, pick: u64) -> (Vec<usize>, bool) {
    let len = enc.bytes.len();
    if len <= exhaustive_up_to {
        return ((0..=len).collect(), true);
    }
    let mut v: Vec<usize> = Vec::new();
    for e in enc.edges() {
        for d in 0..=8usize {
            if e + d <= len {
                v.push(e + d);
            }
            if e >= d {
                v.push(e - d);
            }
        }
    }
    let mut s = pick;
    for _ in 0..64 {
        s = splitmix64(s);
        v.push((s % (len as u64 + 1)) as usize);
    }
    for b in [4096usize, 8192, 16384, 32768, 65536, 131072] {
        for d in 0..5 {
            let c = (b + d).saturating_sub(2);
            if c <= len {
                v.push(c);
            }
        }
    }
    v.sort_unstable();
    v.dedup();
    // at most ~700 cut positions per long stream: keep a strided sample (deterministic)
    if v.len() > 700 {
        let stride = v.len().div_ceil(700);
        let off = (pick as usize) % stride;
        v = v.into_iter().skip(off).step_by(stride).collect();
    }
    (v, false)
}

pub fn check_with(case: &Case, exhaustive_up_to: usize) -> CaseResult {
    let mut r = CaseResult::new();
    let enc = wire::encode(&case.resps);
    let expected: Vec<_> = case.resps.iter().map(AResp::expected).collect();
    let (cuts, exhaustive) = cut_positions(&enc, exhaustive_up_to, case.pick);
    r.class(if exhaustive { "all_cuts_of_stream" } else { "sampled_cuts_of_long_stream" });
    let mut execs = 0u64;
    for cut in cuts {
        let loc = enc.location(cut);
        r.class(loc.name());
        if loc != Loc::Boundary {
            r.nontrivial();
        }
        let k = enc.responses_before(cut);
        let want_terminal = if enc.is_boundary(cut) { Terminal::CleanEof } else { eof() };
        let prefix = &enc.bytes[..cut];
        for seg in [Seg::Whole, Seg::OneByte, Seg::Chunk(7)] {
            if seg != Seg::Whole && cut > 6000 && (seg == Seg::OneByte || cut > 40_000) {
                continue;
            }
            // the interrupted flavours (a receive that fails with a transient read timeout, or whose
            // future is dropped while pending, and is then called again) must classify the end of
            // the stream the same way: what was received before the interruption still counts
            let flavours: &[Flavour] = if seg == Seg::OneByte {
                &[Flavour::Blocking, Flavour::Async]
            } else {
                &[Flavour::Blocking, Flavour::Async, Flavour::BlockingInterrupted, Flavour::AsyncCancelled]
            };
            for &fl in flavours {
                let obs = run(fl, GREETING, prefix, &seg, 2);
                execs += 1;
                // asking again does not turn a stream that ended inside a response into one that ended
                // cleanly (an application draining the connection in a loop must not conclude "closed
                // cleanly" on the second call)
                if want_terminal != Terminal::CleanEof && obs.terminal == want_terminal {
                    if let Some(bad) = obs.after_terminal.iter().find(|t| matches!(t, Terminal::CleanEof | Terminal::Response)) {
                        r.fail(format!(
                            "cut at {cut} of {} ({}), {fl:?}/{seg:?}: the end of the stream inside a response is reported as UnexpectedEof first, but the next receive() on the same connection reports {bad:?}",
                            enc.bytes.len(),
                            loc.name()
                        ));
                        r.execs = execs;
                        return r;
                    }
                }
                if obs.responses.len() != k || obs.responses[..] != expected[..k] {
                    r.fail(format!(
                        "cut at {cut} ({}), {fl:?}/{seg:?}: {} complete response(s) precede the cut but {} were delivered{}",
                        loc.name(),
                        k,
                        obs.responses.len(),
                        if obs.responses.len() == k { " (with different content)" } else { "" }
                    ));
                    r.execs = execs;
                    return r;
                }
                if obs.terminal != want_terminal {
                    r.fail(format!(
                        "cut at {cut} of {} ({}), {fl:?}/{seg:?}: stream end reported as {:?}, expected {:?}",
                        enc.bytes.len(),
                        loc.name(),
                        obs.terminal,
                        want_terminal
                    ));
                    r.execs = execs;
                    return r;
                }
            }
        }
    }
    r.execs = execs;
    r
}

#[derive(Debug, Clone, Serialize, Deserialize)]
pub struct GreetingCase {
    pub version: String,
}

pub fn check_greeting(case: &GreetingCase) -> CaseResult {
    let mut r = CaseResult::new();
    let full = format!("OK MPD {}\n", case.version).into_bytes();
    let mut execs = 0;
    let long = full.len() > 200;
    let cuts: Vec<usize> = if long {
        let mut v: Vec<usize> = (0..16).chain(full.len() - 16..full.len()).chain(4093..4100).collect();
        v.extend((1..16).map(|i| i * full.len() / 16));
        v.retain(|c| *c < full.len());
        v.sort_unstable();
        v.dedup();
        v
    } else {
        (0..full.len()).collect()
    };
    for cut in cuts {
        for seg in if long { [Seg::Whole, Seg::Chunk(997)] } else { [Seg::Whole, Seg::OneByte] } {
            for fl in [Flavour::Blocking, Flavour::Async] {
                let obs = run(fl, &full[..cut], b"", &seg, 0);
                execs += 1;
                if obs.version.is_some() || obs.terminal != eof() {
                    r.fail(format!(
                        "greeting cut after {cut} of {} bytes, {fl:?}/{seg:?}: {:?} / version {:?}, expected UnexpectedEof",
                        full.len(),
                        obs.terminal,
                        obs.version
                    ));
                    r.execs = execs;
                    return r;
                }
            }
        }
    }
    // and the complete greeting followed by nothing is a clean end
    for fl in [Flavour::Blocking, Flavour::Async] {
        let obs = run(fl, &full, b"", &Seg::Whole, 0);
        execs += 1;
        if obs.version.as_deref() != Some(case.version.as_str()) || obs.terminal != Terminal::CleanEof {
            r.fail(format!("complete greeting then end of stream, {fl:?}: {:?} / {:?}", obs.version, obs.terminal));
        }
    }
    r.nontrivial();
    r.class_if(full.len() > 4096, "greeting_over_4k");
    r.execs = execs;
    r
}

/// A response of very many short lines delivered in one piece, then a small one; the stream is cut
/// at and around the two response boundaries.
#[derive(Debug, Clone, Serialize, Deserialize)]
pub struct MegaCut {
    /// every line has a field name of its own (the connection's name table grows by `lines` entries
    /// within one receive call)
    #[serde(default)]
    pub distinct: bool,
    pub lines: usize,
    /// 0: complete stream, 1: right after the first response, 2: two bytes into the second response,
    /// 3: three bytes before the end (inside the second response's OK line), 4: inside the first response
    pub cut: u8,
    pub flavour: Flavour,
}

pub fn check_mega(case: &MegaCut) -> CaseResult {
    let mut r = CaseResult::new();
    let mut stream = Vec::with_capacity(case.lines * 5 + 16);
    for i in 0..case.lines {
        if case.distinct {
            let c = |d: usize| (b'a' + (d % 26) as u8) as char;
            stream.extend_from_slice(format!("k{}{}{}{}{}: b\n", c(i / 456_976), c(i / 17_576), c(i / 676), c(i / 26), c(i)).as_bytes());
        } else {
            stream.extend_from_slice(if i % 2 == 0 { b"a: b\n" } else { b"c: d\n" });
        }
    }
    stream.extend_from_slice(b"OK\n");
    let first_end = stream.len();
    stream.extend_from_slice(b"z: y\nOK\n");
    let (cut, want_n, want_terminal) = match case.cut {
        0 => (stream.len(), 2, Terminal::CleanEof),
        1 => (first_end, 1, Terminal::CleanEof),
        2 => (first_end + 2, 1, eof()),
        3 => (stream.len() - 3, 1, eof()),
        // between two lines of the first response (all of its field lines received, not its OK)
        5 => (first_end - 3, 0, eof()),
        _ => (first_end - 4, 0, eof()),
    };
    r.nontrivial();
    let obs = run(case.flavour, GREETING, &stream[..cut], &Seg::Whole, 0);
    let first_ok = want_n == 0 || obs.responses.first().is_some_and(|x| x.frames.len() == 1 && x.frames[0].fields.len() == case.lines);
    if obs.responses.len() != want_n || !first_ok || obs.terminal != want_terminal {
        r.fail(format!(
            "response of {} lines + a small one, cut at {cut} of {}, {:?}/whole: {} response(s) delivered (first complete: {first_ok}), stream end reported as {:?}; expected {want_n} response(s), then {want_terminal:?}",
            case.lines,
            stream.len(),
            case.flavour,
            obs.responses.len(),
            obs.terminal
        ));
    }
    r
}

fn strategy(tier: Tier) -> BoxedStrategy<Case> {
    (
        prop_oneof![
            8 => wire::responses(5, 60, 60),
            1 => wire::long_sequence().prop_map(|mut v| { v.truncate(40); v }),
            1 => wire::responses_maybe_huge(3, tier.pick(9_000, 20_000), 300, 6),
        ],
        any::<u64>(),
    )
        .prop_map(|(resps, pick)| Case { resps, pick })
        .boxed()
}

pub fn property(tier: Tier) -> Property {
    let limit = tier.pick(1024, 2048);
    Property {
        id: "C10",
        level: "fault_enumeration",
        parts: vec![
            Box::new(RandomPart {
                name: "stream_cuts",
                rule: "proptest: well-formed stream of 1-5 responses of every shape; EVERY cut position 0..=len when len <= 1024 B (thorough 2048), otherwise all positions within 8 bytes of a structural edge, around 4096/8192/16384 and 64 random ones; each cut x {whole, one-byte, 7-byte chunks} x {blocking, async} plus, for whole and 7-byte chunks, {blocking with a transient WouldBlock error before every read and receive() called again, async with every pending receive future dropped and re-created}; responses wholly before the cut must be delivered, then Ok(None) iff the cut is a recorded boundary else UnexpectedEof. non-trivial = case containing a cut strictly inside a response; the class histogram counts cases per cut location class; 'executions' counts connection runs (one per cut x segmentation x flavour)",
                cases: (300, 12_000),
                strategy: Box::new(strategy),
                check: Box::new(move |c| check_with(c, limit)),
            }),
            Box::new(RandomPart {
                name: "greeting_cuts",
                rule: "proptest: valid greeting with an arbitrary non-empty UTF-8 version (up to 5000 chars); every proper prefix x {whole, one-byte} x {blocking, async} must give UnexpectedEof, the full line then EOF a clean end",
                cases: (300, 20_000),
                strategy: Box::new(|_t| {
                    prop_oneof![
                        6 => "[0-9]{1,2}\\.[0-9]{1,2}(\\.[0-9]{1,3})?",
                        3 => "[^\\n]{1,40}",
                        1 => "[^\\n]{4000,5000}",
                    ]
                    .prop_map(|version| GreetingCase { version })
                    .boxed()
                }),
                check: Box::new(check_greeting),
            }),
            Box::new(crate::core::ExhaustivePart {
                name: "mega_response_cuts",
                rule: "one response of N short lines (N in {70000, 200000, 300000}; thorough + 1000000) delivered in one piece (the receive buffer doubles up to the whole stream) followed by a small response, and the same with N distinct field names (N = 70000; thorough up to 1200000) under all five ways of calling receive incl. the interrupted ones; stream complete / cut right after the first response / 2 bytes into the second / 3 bytes before the end / inside the last line of the first / between the last field line of the first and its OK x {blocking, async}: the complete responses before the cut must be delivered, then a clean end exactly on the two boundaries",
                space: Box::new(|t: Tier| {
                    let mut sizes = vec![70_000usize, 200_000, 300_000];
                    if t == Tier::Thorough {
                        sizes.push(1_000_000);
                    }
                    let distinct_sizes = if t == Tier::Thorough { vec![70_000usize, 300_000, 1_200_000] } else { vec![70_000usize] };
                    Box::new(
                        sizes
                            .into_iter()
                            .flat_map(|lines| (0..6u8).flat_map(move |cut| [Flavour::Blocking, Flavour::Async].into_iter().map(move |flavour| MegaCut { distinct: false, lines, cut, flavour })))
                            .chain(distinct_sizes.into_iter().flat_map(|lines| {
                                (0..6u8).flat_map(move |cut| crate::streamlab::ALL_FLAVOURS.into_iter().map(move |flavour| MegaCut { distinct: true, lines, cut, flavour }))
                            })),
                    )
                }),
                check: Box::new(check_mega),
            }),
        ],
        assumptions: vec!["response boundaries and cut-location classes are those recorded by the harness encoder"],
        selftest: None,
    }
}
