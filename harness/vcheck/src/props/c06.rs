//! C06 — command arguments reach the server byte-for-byte (escaping round trip).
//! Oracle: the MPD tokenizer port. DESIGN.md section 4 / C06.

use std::borrow::Cow;

use mpd_protocol::{Command, CommandList};
use proptest::prelude::*;
use serde::{Deserialize, Serialize};

use crate::{
    cmdlab::{self, arg_string_maybe_rejected, sent_bytes, sent_list_bytes, valid_name, CLASS_ALPHABET},
    core::{escape_bytes, CaseResult, ExhaustivePart, Property, RandomPart, Tier},
    mpdtok,
};

#[derive(Debug, Clone, Serialize, Deserialize)]
pub struct Case {
    pub name: String,
    pub args: Vec<String>,
    /// how each argument is handed over: 0 &str, 1 String, 2 Cow::Borrowed, 3 Cow::Owned, 4 &String
    pub how: Vec<u8>,
    /// None: Connection::send; Some((before, after)): member of a command list sent by send_list
    pub list: Option<(u8, u8)>,
}

fn add(cmd: &mut Command, arg: &str, how: u8) -> bool {
    match how % 5 {
        0 => cmd.add_argument(arg).is_ok(),
        1 => cmd.add_argument(arg.to_owned()).is_ok(),
        2 => cmd.add_argument(Cow::Borrowed(arg)).is_ok(),
        3 => cmd.add_argument(Cow::<str>::Owned(arg.to_owned())).is_ok(),
        _ => {
            let s = arg.to_owned();
            cmd.add_argument(&s).is_ok()
        }
    }
}

/// The F-C class: the argument contains a quote or backslash but nothing that makes the encoder
/// add quotes.
fn fc_class(arg: &str) -> bool {
    !arg.is_empty()
        && arg.bytes().all(|b| b > 0x20)
        && arg.bytes().any(|b| b == b'"' || b == b'\'' || b == b'\\')
}

/// What the encoder writes for an F-C argument: backslash before each of `"'\`, no quotes.
fn fc_render(arg: &str) -> Vec<u8> {
    let mut out = Vec::new();
    for b in arg.bytes() {
        if b == b'"' || b == b'\'' || b == b'\\' {
            out.push(b'\\');
        }
        out.push(b);
    }
    out
}

fn want_tokens(name: &str, args: &[&str]) -> Vec<Vec<u8>> {
    let mut v = vec![name.as_bytes().to_vec()];
    v.extend(args.iter().map(|a| a.as_bytes().to_vec()));
    v
}

/// Judge one written line against the accepted (name, args).
fn judge_line(r: &mut CaseResult, line: &[u8], name: &str, args: &[&str]) {
    let want = want_tokens(name, args);
    let got = mpdtok::tokenize(line);
    if got.as_ref() == Ok(&want) {
        return;
    }
    // Not a round trip. Is it exactly known finding F-C and nothing else?
    let mut expect_line = name.as_bytes().to_vec();
    let mut any_fc = false;
    for a in args {
        // render this argument on its own through the same public path
        let mut c = Command::build("x").expect("x is a valid name");
        if c.add_argument(*a).is_err() {
            r.fail(format!("argument {a:?} accepted in context but rejected alone"));
            return;
        }
        let single = sent_bytes(c);
        let rendered = &single[2..single.len() - 1];
        let alone_ok = mpdtok::tokenize(&single[..single.len() - 1])
            == Ok(vec![b"x".to_vec(), a.as_bytes().to_vec()]);
        if !alone_ok {
            if fc_class(a) && rendered == fc_render(a).as_slice() {
                any_fc = true;
            } else {
                r.fail(format!(
                    "argument {:?} is written as {:?}, which MPD reads as {:?}",
                    a,
                    escape_bytes(rendered),
                    mpdtok::tokenize(&single[..single.len() - 1])
                ));
                return;
            }
        }
        expect_line.push(b' ');
        expect_line.extend_from_slice(rendered);
    }
    if any_fc && expect_line == line {
        r.known(
            "F-C",
            "argument with a quote/backslash but no blank is backslash-escaped and left unquoted (e.g. Joe's -> Joe\\'s), which MPD rejects or reads with doubled backslashes",
        );
    } else {
        r.fail(format!(
            "line {:?} is read by MPD as {:?}, expected {:?}",
            escape_bytes(line),
            got.map(|t| t.iter().map(|x| escape_bytes(x)).collect::<Vec<_>>()),
            want.iter().map(|x| escape_bytes(x)).collect::<Vec<_>>()
        ));
    }
}

pub fn check(case: &Case) -> CaseResult {
    let mut r = CaseResult::new();
    let Ok(mut cmd) = Command::build(&case.name) else {
        r.class("name_rejected");
        return r;
    };
    let mut accepted: Vec<&str> = Vec::new();
    for (i, a) in case.args.iter().enumerate() {
        let how = case.how.get(i).copied().unwrap_or(0);
        if add(&mut cmd, a, how) {
            accepted.push(a);
        } else {
            r.class("arg_rejected");
            if !a.contains('\n') && !a.contains('\0') {
                // outside C06's quantifier only if the builder refuses it; refusing an ordinary
                // string is not a C06 matter but worth seeing in the histogram
                r.class("arg_rejected_without_lf_or_nul");
            }
        }
    }
    for a in &accepted {
        if a.is_empty() {
            r.class("empty_arg");
            r.nontrivial();
        }
        if a.bytes().any(cmdlab::is_special_byte) {
            r.nontrivial();
        }
        r.class_if(a.bytes().any(|b| b == b' ' || b == b'\t'), "blank");
        r.class_if(a.bytes().any(|b| b < 0x20 && b != b'\t'), "control");
        r.class_if(a.contains('"'), "dquote");
        r.class_if(a.contains('\''), "squote");
        r.class_if(a.contains('\\'), "backslash");
        r.class_if(a.bytes().any(|b| b >= 0x80), "multibyte");
        r.class_if(a.len() > 64, "long");
        r.class_if(fc_class(a), "fc_class");
    }
    r.class_if(accepted.len() >= 3, "three_or_more_args");
    // the asynchronous connection must write the same bytes (C06 quantifies over what reaches the
    // server, whichever connection flavour sent it)
    let max_write = [usize::MAX, 1, 5, 32][(case.how.len() + accepted.len()) % 4];
    if let Err(e) = cmdlab::both_flavours_agree(&cmd, None, max_write) {
        r.fail(e);
        return r;
    }

    match case.list {
        None => {
            r.class("send");
            let bytes = sent_bytes(cmd);
            let lines = match mpdtok::split_lines(&bytes) {
                Ok(l) => l,
                Err(e) => {
                    r.fail(e);
                    return r;
                }
            };
            if lines.len() != 1 {
                r.fail(format!("{} lines written for one command: {:?}", lines.len(), escape_bytes(&bytes)));
                return r;
            }
            judge_line(&mut r, lines[0], &case.name, &accepted);
        }
        Some((before, after)) => {
            r.class("send_list");
            let filler = |i: u8| Command::new("filler").argument(format!("n{i}"));
            let mut cmds: Vec<Command> = (0..before).map(filler).collect();
            let idx = cmds.len();
            cmds.push(cmd);
            cmds.extend((0..after).map(|i| filler(100 + i)));
            let n = cmds.len();
            let mut it = cmds.into_iter();
            let mut list = CommandList::new(it.next().unwrap());
            for c in it {
                list.add(c);
            }
            let bytes = sent_list_bytes(list);
            let lines = match mpdtok::split_lines(&bytes) {
                Ok(l) => l,
                Err(e) => {
                    r.fail(e);
                    return r;
                }
            };
            let line = if n == 1 {
                if lines.len() != 1 {
                    r.fail(format!("{} lines for a list of one", lines.len()));
                    return r;
                }
                lines[0]
            } else {
                if lines.len() != n + 2 {
                    r.fail(format!("{} lines for a list of {n}: {:?}", lines.len(), escape_bytes(&bytes)));
                    return r;
                }
                lines[1 + idx]
            };
            judge_line(&mut r, line, &case.name, &accepted);
        }
    }
    r
}

fn strategy(tier: Tier) -> BoxedStrategy<Case> {
    let max_len = tier.pick(120, 300);
    (
        valid_name(),
        prop::collection::vec((arg_string_maybe_rejected(max_len), 0..5u8), 0..=8usize),
        prop_oneof![
            3 => Just(None),
            2 => (0..3u8, 0..3u8).prop_map(Some),
        ],
    )
        .prop_map(|(name, args, list)| {
            let (args, how) = args.into_iter().unzip();
            Case { name, args, how, list }
        })
        .boxed()
}

/// All strings of length <= L over the 11-symbol class alphabet, each at four positions.
fn exhaustive(tier: Tier) -> Box<dyn Iterator<Item = Case>> {
    let max_len = tier.pick(4usize, 5usize);
    let k = CLASS_ALPHABET.len();
    let mut total: usize = 0;
    let mut pow = 1usize;
    for _ in 0..=max_len {
        total += pow;
        pow *= k;
    }
    Box::new((0..total).flat_map(move |mut idx| {
        // decode idx into (len, digits)
        let mut len = 0;
        let mut block = 1usize;
        while idx >= block {
            idx -= block;
            block *= k;
            len += 1;
        }
        let mut s = String::new();
        for _ in 0..len {
            s.push_str(CLASS_ALPHABET[idx % k]);
            idx /= k;
        }
        (0..4u8).map(move |pos| {
            let args = match pos {
                0 => vec![s.clone()],
                1 => vec![s.clone(), "y2".into()],
                2 => vec!["x1".into(), s.clone(), "y2".into()],
                _ => vec!["x1".into(), s.clone()],
            };
            Case { name: "cmd".into(), how: vec![pos; args.len()], args, list: None }
        })
    }))
}

pub fn property(_tier: Tier) -> Property {
    Property {
        id: "C06",
        level: "exploration",
        parts: vec![
            Box::new(ExhaustivePart {
                name: "exhaustive",
                rule: "every string of length <= 4 (thorough: 5) over one representative per character class [a, space, tab, 0x01, 0x1f, dquote, squote, backslash, NUL, e-acute, LF], as only/first/middle/last argument; non-trivial = an accepted argument that is empty or contains a byte <= 0x20, a quote, a backslash or a non-ASCII byte; distinct by serialised case",
                space: Box::new(exhaustive),
                check: Box::new(check),
            }),
            Box::new(RandomPart {
                name: "random",
                rule: "proptest: name [A-Za-z][A-Za-z_]{0,19}, 0-8 class-biased arguments up to 120 (thorough 300) chars passed as &str/String/Cow/&String, sent by Connection::send or inside a CommandList by send_list; same non-trivial rule",
                cases: (100_000, 20_000_000),
                strategy: Box::new(strategy),
                check: Box::new(check),
            }),
            crate::fuzzops::corpus_part("fuzz_corpus", "fz_cmd", "C06", crate::fuzzops::cmd_target),
        ],
        assumptions: vec![
            "the port of MPD's Tokenizer/line handling in vlib::mpdtok is faithful (self-test vectors run first)",
            "MPD's 4 KiB request-line limit and its 16-argument limit are not part of the property",
        ],
        selftest: Some(mpdtok::selftest),
    }
}
