//! C06 — command arguments reach the server byte-for-byte (escaping round trip).
//! Oracle: the MPD tokenizer port. DESIGN.md section 4 / C06.

use std::borrow::Cow;

use mpd_protocol::{Command, CommandList};
use proptest::prelude::*;
use serde::{Deserialize, Serialize};

use crate::{
    cmdlab::{self, arg_string_maybe_rejected, sent_bytes, sent_list_bytes, valid_name, CLASS_ALPHABET},
    core::{escape_bytes, CaseResult, ExhaustivePart, Property, RandomPart, Tier},
    mpdtok,
};

#[derive(Debug, Clone, Serialize, Deserialize)]
pub struct Case {
    pub name: String,
    pub args: Vec<String>,
    /// how each argument is handed over: how % 5 = 0 &str, 1 String, 2 Cow::Borrowed, 3 Cow::Owned, 4 &String;
    /// how / 5 = offset of a borrowed argument inside a larger allocation (see `add`)
    pub how: Vec<u8>,
    /// None: Connection::send; Some((before, after)): member of a command list sent by send_list
    pub list: Option<(u8, u8)>,
}

fn add(cmd: &mut Command, arg: &str, how: u8) -> bool {
    // how / 5 = 1..=8: the borrowed forms hand over a sub-slice of a larger string that starts that
    // many bytes into the allocation (an argument cut out of a longer line: neither its start nor
    // its end sits where an allocator would put them)
    let k = (how / 5) as usize % 9;
    if k > 0 && matches!(how % 5, 0 | 2) {
        let mut padded = " \"p'\\pqrs"[..k].to_string();
        padded.push_str(arg);
        padded.push_str(&" q\t"[..k % 4]);
        let sub = &padded[k..k + arg.len()];
        return if how % 5 == 0 { cmd.add_argument(sub).is_ok() } else { cmd.add_argument(Cow::Borrowed(sub)).is_ok() };
    }
    match how % 5 {
        0 => cmd.add_argument(arg).is_ok(),
        1 => cmd.add_argument(arg.to_owned()).is_ok(),
        2 => cmd.add_argument(Cow::Borrowed(arg)).is_ok(),
        3 => cmd.add_argument(Cow::<str>::Owned(arg.to_owned())).is_ok(),
        _ => {
            // &String. Every other time the String is a buffer the application reuses: it held a plain
            // string of the same length (every byte that matters to either side replaced by a letter) that
            // was sent in another command a moment ago, and was then overwritten in place - same address,
            // same length, and, when the special characters sit in the middle, same beginning and end
            if (how / 5) % 2 == 1 {
                let mut s: String = arg.chars().map(|c| if c.is_ascii() && (c <= ' ' || "\"'\\\u{7f}".contains(c)) { 'a' } else { c }).collect();
                let mut earlier = Command::new("earlier");
                let _ = earlier.add_argument(&s);
                let _ = earlier.add_argument(s.as_str());
                s.clear();
                s.push_str(arg);
                return cmd.add_argument(&s).is_ok();
            }
            let s = arg.to_owned();
            cmd.add_argument(&s).is_ok()
        }
    }
}

/// The F-C class: the argument contains a quote or backslash but nothing that makes the encoder
/// add quotes.
fn fc_class(arg: &str) -> bool {
    !arg.is_empty()
        && arg.bytes().all(|b| b > 0x20)
        && arg.bytes().any(|b| b == b'"' || b == b'\'' || b == b'\\')
}

/// What the encoder writes for an F-C argument: backslash before each of `"'\`, no quotes.
fn fc_render(arg: &str) -> Vec<u8> {
    let mut out = Vec::new();
    for b in arg.bytes() {
        if b == b'"' || b == b'\'' || b == b'\\' {
            out.push(b'\\');
        }
        out.push(b);
    }
    out
}

fn want_tokens(name: &str, args: &[&str]) -> Vec<Vec<u8>> {
    let mut v = vec![name.as_bytes().to_vec()];
    v.extend(args.iter().map(|a| a.as_bytes().to_vec()));
    v
}

/// Judge one written line against the accepted (name, args).
fn judge_line(r: &mut CaseResult, line: &[u8], name: &str, args: &[&str]) {
    let want = want_tokens(name, args);
    let got = mpdtok::tokenize(line);
    if got.as_ref() == Ok(&want) {
        return;
    }
    // Not a round trip. Is it exactly known finding F-C and nothing else?
    let mut expect_line = name.as_bytes().to_vec();
    let mut any_fc = false;
    for a in args {
        // render this argument on its own through the same public path
        let mut c = Command::build("x").expect("x is a valid name");
        if c.add_argument(*a).is_err() {
            r.fail(format!("argument {a:?} accepted in context but rejected alone"));
            return;
        }
        let single = sent_bytes(c);
        let rendered = &single[2..single.len() - 1];
        let alone_ok = mpdtok::tokenize(&single[..single.len() - 1])
            == Ok(vec![b"x".to_vec(), a.as_bytes().to_vec()]);
        if !alone_ok {
            if fc_class(a) && rendered == fc_render(a).as_slice() {
                any_fc = true;
            } else {
                r.fail(format!(
                    "argument {:?} is written as {:?}, which MPD reads as {:?}",
                    a,
                    escape_bytes(rendered),
                    mpdtok::tokenize(&single[..single.len() - 1])
                ));
                return;
            }
        }
        expect_line.push(b' ');
        expect_line.extend_from_slice(rendered);
    }
    if any_fc && expect_line == line {
        r.known(
            "F-C",
            "argument with a quote/backslash but no blank is backslash-escaped and left unquoted (e.g. Joe's -> Joe\\'s), which MPD rejects or reads with doubled backslashes",
        );
    } else {
        r.fail(format!(
            "line {:?} is read by MPD as {:?}, expected {:?}",
            escape_bytes(line),
            got.map(|t| t.iter().map(|x| escape_bytes(x)).collect::<Vec<_>>()),
            want.iter().map(|x| escape_bytes(x)).collect::<Vec<_>>()
        ));
    }
}

pub fn check(case: &Case) -> CaseResult {
    let mut r = CaseResult::new();
    let Ok(mut cmd) = Command::build(&case.name) else {
        r.class("name_rejected");
        return r;
    };
    let mut accepted: Vec<&str> = Vec::new();
    for (i, a) in case.args.iter().enumerate() {
        let how = case.how.get(i).copied().unwrap_or(0);
        if add(&mut cmd, a, how) {
            accepted.push(a);
        } else {
            r.class("arg_rejected");
            if !a.contains('\n') && !a.contains('\0') {
                // outside C06's quantifier only if the builder refuses it; refusing an ordinary
                // string is not a C06 matter but worth seeing in the histogram
                r.class("arg_rejected_without_lf_or_nul");
            }
        }
    }
    for a in &accepted {
        if a.is_empty() {
            r.class("empty_arg");
            r.nontrivial();
        }
        if a.bytes().any(cmdlab::is_special_byte) {
            r.nontrivial();
        }
        r.class_if(a.bytes().any(|b| b == b' ' || b == b'\t'), "blank");
        r.class_if(a.bytes().any(|b| b < 0x20 && b != b'\t'), "control");
        r.class_if(a.contains('"'), "dquote");
        r.class_if(a.contains('\''), "squote");
        r.class_if(a.contains('\\'), "backslash");
        r.class_if(a.bytes().any(|b| b >= 0x80), "multibyte");
        r.class_if(a.len() > 64, "long");
        r.class_if(fc_class(a), "fc_class");
    }
    r.class_if(accepted.len() >= 3, "three_or_more_args");
    // the asynchronous connection must write the same bytes (C06 quantifies over what reaches the
    // server, whichever connection flavour sent it)
    let max_write = [usize::MAX, 1, 5, 32][(case.how.len() + accepted.len()) % 4];
    if let Err(e) = cmdlab::both_flavours_agree(&cmd, None, max_write) {
        r.fail(e);
        return r;
    }

    match case.list {
        None => {
            r.class("send");
            let bytes = sent_bytes(cmd);
            let lines = match mpdtok::split_lines(&bytes) {
                Ok(l) => l,
                Err(e) => {
                    r.fail(e);
                    return r;
                }
            };
            if lines.len() != 1 {
                r.fail(format!("{} lines written for one command: {:?}", lines.len(), escape_bytes(&bytes)));
                return r;
            }
            judge_line(&mut r, lines[0], &case.name, &accepted);
        }
        Some((before, after)) => {
            r.class("send_list");
            let filler = |i: u8| Command::new("filler").argument(format!("n{i}"));
            let mut cmds: Vec<Command> = (0..before).map(filler).collect();
            let idx = cmds.len();
            cmds.push(cmd);
            cmds.extend((0..after).map(|i| filler(100 + i)));
            let n = cmds.len();
            let mut it = cmds.into_iter();
            let mut list = CommandList::new(it.next().unwrap());
            for c in it {
                list.add(c);
            }
            let bytes = sent_list_bytes(list);
            let lines = match mpdtok::split_lines(&bytes) {
                Ok(l) => l,
                Err(e) => {
                    r.fail(e);
                    return r;
                }
            };
            let line = if n == 1 {
                if lines.len() != 1 {
                    r.fail(format!("{} lines for a list of one", lines.len()));
                    return r;
                }
                lines[0]
            } else {
                if lines.len() != n + 2 {
                    r.fail(format!("{} lines for a list of {n}: {:?}", lines.len(), escape_bytes(&bytes)));
                    return r;
                }
                lines[1 + idx]
            };
            judge_line(&mut r, line, &case.name, &accepted);
        }
    }
    r
}

fn strategy(tier: Tier) -> BoxedStrategy<Case> {
    let max_len = tier.pick(120, 300);
    (
        valid_name(),
        prop::collection::vec((arg_string_maybe_rejected(max_len), prop_oneof![2 => 0..5u8, 1 => 5..45u8]), 0..=8usize),
        prop_oneof![
            3 => Just(None),
            2 => (0..3u8, 0..3u8).prop_map(Some),
        ],
    )
        .prop_map(|(name, args, list)| {
            let (args, how) = args.into_iter().unzip();
            Case { name, args, how, list }
        })
        .boxed()
}

/// All strings of length <= L over the 11-symbol class alphabet, each at four positions.
fn exhaustive(tier: Tier) -> Box<dyn Iterator<Item = Case>> {
    let max_len = tier.pick(4usize, 5usize);
    let k = CLASS_ALPHABET.len();
    let mut total: usize = 0;
    let mut pow = 1usize;
    for _ in 0..=max_len {
        total += pow;
        pow *= k;
    }
    Box::new((0..total).flat_map(move |mut idx| {
        // decode idx into (len, digits)
        let mut len = 0;
        let mut block = 1usize;
        while idx >= block {
            idx -= block;
            block *= k;
            len += 1;
        }
        let mut s = String::new();
        for _ in 0..len {
            s.push_str(CLASS_ALPHABET[idx % k]);
            idx /= k;
        }
        (0..4u8).map(move |pos| {
            let args = match pos {
                0 => vec![s.clone()],
                1 => vec![s.clone(), "y2".into()],
                2 => vec!["x1".into(), s.clone(), "y2".into()],
                _ => vec!["x1".into(), s.clone()],
            };
            Case { name: "cmd".into(), how: vec![pos; args.len()], args, list: None }
        })
    }))
}

// ---- commands built in unusual (but legitimate) execution contexts ---------------------------------

#[derive(Debug, Clone, Serialize, Deserialize)]
pub struct ContextCase {
    pub args: Vec<String>,
    /// 0: inside the destructor of an application thread-local that was first used BEFORE the thread
    /// ever touched the library; 1: the same, first used AFTER; 2: re-entrantly, from inside the
    /// `render` of a user-defined argument of another command; 3: on a thread that is unwinding; 4: after
    /// a user-defined renderer panicked on this thread and the panic was contained
    pub context: u8,
}

/// what `build_all` produced: per argument whether it was accepted, and the finished command
type Built = (Vec<bool>, Command);

fn build_all(args: &[String]) -> Built {
    let mut c = Command::new("cmd");
    let oks = args.iter().map(|a| c.add_argument(a.as_str()).is_ok()).collect();
    (oks, c)
}

struct AtExit(Vec<String>, std::sync::mpsc::Sender<Built>);
impl Drop for AtExit {
    fn drop(&mut self) {
        let _ = self.1.send(build_all(&self.0));
    }
}
thread_local! {
    static AT_EXIT: std::cell::RefCell<Option<AtExit>> = const { std::cell::RefCell::new(None) };
}

struct Reentrant<'a>(&'a [String], std::cell::RefCell<Option<Built>>);
impl mpd_protocol::command::Argument for Reentrant<'_> {
    fn render(&self, buf: &mut bytes::BytesMut) {
        *self.1.borrow_mut() = Some(build_all(self.0));
        buf.extend_from_slice(b"outer");
    }
}

pub fn check_context(case: &ContextCase) -> CaseResult {
    let mut r = CaseResult::new();
    let (oks0, cmd0) = build_all(&case.args);
    let bytes0 = sent_bytes(cmd0);
    let (tx, rx) = std::sync::mpsc::channel::<Built>();
    let args = case.args.clone();
    let built: Option<Built> = match case.context % 5 {
        ctx @ (0 | 1) => {
            let _ = std::thread::spawn(move || {
                if ctx == 1 {
                    let _ = build_all(&["warm up".to_string(), "x\ny".to_string()]);
                }
                AT_EXIT.with(|c| *c.borrow_mut() = Some(AtExit(args, tx)));
                if ctx == 0 {
                    let _ = build_all(&["warm up".to_string(), "x\ny".to_string()]);
                }
            })
            .join();
            rx.recv().ok()
        }
        2 => {
            let probe = Reentrant(&args, std::cell::RefCell::new(None));
            let mut outer = Command::new("outer");
            let _ = outer.add_argument(&probe);
            drop(tx);
            probe.1.into_inner()
        }
        4 => {
            // a user-defined renderer wrote some bytes (a line feed among them) and then panicked; the
            // application contained the panic (catch_unwind, a task that died) and goes on building
            // commands on the same thread
            struct Bomb;
            impl mpd_protocol::command::Argument for Bomb {
                fn render(&self, buf: &mut bytes::BytesMut) {
                    buf.extend_from_slice(b"x\nkill \"");
                    std::panic::resume_unwind(Box::new("harness: renderer gives up"));
                }
            }
            let _ = crate::core::catch(|| {
                let mut c = Command::new("doomed");
                let _ = c.add_argument("fine");
                let _ = c.add_argument(Bomb);
            });
            drop(tx);
            Some(build_all(&args))
        }
        _ => {
            struct OnUnwind(Vec<String>, std::sync::mpsc::Sender<Built>);
            impl Drop for OnUnwind {
                fn drop(&mut self) {
                    let _ = self.1.send(build_all(&self.0));
                }
            }
            let _ = crate::core::catch(move || {
                let _guard = OnUnwind(args, tx);
                std::panic::resume_unwind(Box::new("harness: unwinding on purpose"));
            });
            rx.recv().ok()
        }
    };
    r.class(["in_tls_destructor_app_first", "in_tls_destructor_library_first", "reentrant_from_render", "while_unwinding", "after_contained_renderer_panic"][case.context as usize % 5]);
    let Some((oks1, cmd1)) = built else {
        r.fail("harness: the command built in the unusual context was not handed back");
        return r;
    };
    let rejected = case.args.iter().any(|a| a.contains('\n') || a.contains('\0'));
    r.class_if(rejected, "with_lf_or_nul_argument");
    if rejected || case.args.iter().any(|a| a.is_empty() || a.bytes().any(|b| b <= 0x20 || b"\"'\\".contains(&b))) {
        r.nontrivial();
    }
    for (a, ok) in case.args.iter().zip(&oks1) {
        if *ok && (a.contains('\n') || a.contains('\0')) {
            r.fail(format!("argument {a:?} (line feed / NUL) is accepted when the command is built {}", context_name(case.context)));
            return r;
        }
    }
    let bytes1 = sent_bytes(cmd1);
    if oks1 != oks0 || bytes1 != bytes0 {
        r.fail(format!(
            "the same arguments give a different command when built {}: accepted {oks1:?} vs {oks0:?}, line {:?} vs {:?}",
            context_name(case.context),
            escape_bytes(&bytes1),
            escape_bytes(&bytes0)
        ));
    }
    r
}

fn context_name(c: u8) -> &'static str {
    ["inside a thread-local destructor (application's thread-local first used before the library)", "inside a thread-local destructor (library used first)", "re-entrantly from the render() of another command's argument", "inside a destructor while the thread unwinds", "after a user-defined renderer panicked on this thread (panic contained)"][c as usize % 5]
}

pub fn context_part() -> Box<dyn crate::core::Part> {
    Box::new(RandomPart {
        name: "odd_contexts",
        rule: "proptest: 1-4 argument strings (C06's generator incl. LF/NUL ones) added to a command (a) normally and (b) inside a thread-local destructor of an exiting thread (application's thread-local registered before / after the thread first used the library), re-entrantly from inside Argument::render of another command, inside a destructor during unwinding, or after a renderer's contained panic on the same thread; which arguments are accepted and the bytes sent must be identical, LF/NUL never accepted. non-trivial = an argument that needs quoting or is rejected",
        cases: (6_000, 600_000),
        strategy: Box::new(|_t: Tier| (prop::collection::vec(arg_string_maybe_rejected(60), 1..=4usize), 0..5u8).prop_map(|(args, context)| ContextCase { args, context }).boxed()),
        check: Box::new(check_context),
    })
}

pub fn property(_tier: Tier) -> Property {
    Property {
        id: "C06",
        level: "exploration",
        parts: vec![
            Box::new(ExhaustivePart {
                name: "exhaustive",
                rule: "every string of length <= 4 (thorough: 5) over one representative per character class [a, space, tab, 0x01, 0x1f, dquote, squote, backslash, NUL, e-acute, LF], as only/first/middle/last argument; non-trivial = an accepted argument that is empty or contains a byte <= 0x20, a quote, a backslash or a non-ASCII byte; distinct by serialised case",
                space: Box::new(exhaustive),
                check: Box::new(check),
            }),
            Box::new(RandomPart {
                name: "random",
                rule: "proptest: name [A-Za-z][A-Za-z_]{0,19}, 0-8 class-biased arguments up to 120 (thorough 300) chars passed as &str/String/Cow/&String, sent by Connection::send or inside a CommandList by send_list; same non-trivial rule",
                cases: (100_000, 20_000_000),
                strategy: Box::new(strategy),
                check: Box::new(check),
            }),
            context_part(),
            crate::fuzzops::corpus_part("fuzz_corpus", "fz_cmd", "C06", crate::fuzzops::cmd_target),
        ],
        assumptions: vec![
            "the port of MPD's Tokenizer/line handling in vlib::mpdtok is faithful (self-test vectors run first)",
            "MPD's 4 KiB request-line limit and its 16-argument limit are not part of the property",
        ],
        selftest: Some(mpdtok::selftest),
    }
}
