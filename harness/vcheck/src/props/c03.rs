//! C03 — well-formed server output is decoded exactly (round trip against the harness encoder).

use proptest::prelude::*;
use serde::{Deserialize, Serialize};

use crate::{
    core::{CaseResult, Property, RandomPart, Tier},
    seg::{seg_strategy, Seg},
    streamlab::{run, Flavour, Terminal, GREETING},
    wire::{self, AResp},
};

#[derive(Debug, Clone, Serialize, Deserialize)]
pub struct Case {
    pub resps: Vec<AResp>,
    pub seg: Seg,
    pub flavour: Flavour,
    /// 0: receive(); 1: the command() helper; 2: the command_list() helper
    #[serde(default)]
    pub via: u8,
}

pub fn check(case: &Case) -> CaseResult {
    let mut r = CaseResult::new();
    let enc = wire::encode(&case.resps);
    let expected: Vec<_> = case.resps.iter().map(AResp::expected).collect();

    let mimic = case.resps.iter().any(wire::mimics_keyword);
    let payload = case.resps.iter().any(wire::has_payload);
    let multi_list = case.resps.iter().any(|x| matches!(x, AResp::List(f) if f.len() >= 2));
    let err_after = case.resps.iter().any(|x| matches!(x, AResp::Failed { completed, .. } if !completed.is_empty()));
    let partial_dropped = case.resps.iter().any(|x| matches!(x, AResp::Failed { partial, .. } if !partial.items.is_empty()));
    r.class_if(mimic, "keyword_mimic");
    r.class_if(payload, "payload");
    r.class_if(multi_list, "list_2plus");
    r.class_if(err_after, "error_after_completed_frames");
    r.class_if(partial_dropped, "error_with_partial_frame");
    r.class_if(case.resps.len() >= 2, "several_responses");
    r.class_if(case.resps.len() >= 30, "thirty_or_more_responses");
    r.class_if(enc.bytes.len() > 4096, "over_4k");
    r.class_if(enc.bytes.len() > 8192, "over_8k");
    r.class_if(enc.bytes.len() > 65_536, "over_64k");
    r.class_if(case.seg.cuts_inside(enc.bytes.len()), "segmented");
    r.class(match case.flavour {
        Flavour::Blocking => "blocking",
        Flavour::Async => "async",
        Flavour::AsyncPending => "async_pending",
        Flavour::BlockingInterrupted => "blocking_interrupted",
        Flavour::AsyncCancelled => "async_cancelled",
    });
    if mimic || payload || multi_list || err_after || case.resps.len() >= 2 {
        r.nontrivial();
    }

    let obs = match case.via % 3 {
        0 => run(case.flavour, GREETING, &enc.bytes, &case.seg, 0),
        v => {
            r.class("via_command_helpers");
            let mut o = crate::streamlab::run_via_helpers(case.flavour, &enc.bytes, &case.seg, v == 2);
            // the helpers turn the clean end after the last response into UnexpectedEof
            if o.terminal == crate::streamlab::eof() && o.responses.len() == expected.len() {
                o.terminal = Terminal::CleanEof;
            } else if o.terminal == Terminal::CleanEof {
                o.terminal = Terminal::Io("helper reported a clean end as Ok".into());
            }
            o
        }
    };
    if let Some(m) = &obs.accessor_mismatch {
        r.fail(m.clone());
        return r;
    }
    for (i, want) in expected.iter().enumerate() {
        match obs.responses.get(i) {
            Some(got) if got == want => {}
            Some(got) => {
                let g = format!("{got:?}");
                let w = format!("{want:?}");
                r.fail(format!(
                    "response {i} decoded as {} but the server encoded {}",
                    g.chars().take(600).collect::<String>(),
                    w.chars().take(600).collect::<String>()
                ));
                return r;
            }
            None => {
                r.fail(format!("response {i} of {} was not delivered; terminal outcome {:?}", expected.len(), obs.terminal));
                return r;
            }
        }
    }
    if obs.responses.len() != expected.len() {
        r.fail(format!("{} responses delivered, {} encoded", obs.responses.len(), expected.len()));
        return r;
    }
    if obs.terminal != Terminal::CleanEof {
        r.fail(format!("after the last response: {:?} instead of a clean end", obs.terminal));
    }
    r
}

fn strategy(tier: Tier) -> BoxedStrategy<Case> {
    let max_payload = tier.pick(20_000, 40_000);
    (
        prop_oneof![12 => wire::responses_maybe_huge(6, max_payload, tier.pick(6_000, 20_000), 40), 1 => wire::long_sequence()],
        seg_strategy(6000),
        prop_oneof![3 => 0..3usize, 1 => 3..5usize].prop_map(|i| crate::streamlab::ALL_FLAVOURS[i]),
        prop_oneof![3 => Just(0u8), 1 => Just(1u8), 1 => Just(2u8)],
    )
        .prop_map(|(resps, seg, flavour, via)| Case { resps, seg, flavour, via })
        .boxed()
}

#[derive(Debug, Clone, Serialize, Deserialize)]
pub struct MegaCase {
    pub lines: usize,
    pub flavour: Flavour,
    pub chunk: usize,
}

/// One response with a very large number of short lines, then a second small one.
/// One field whose value is `len` bytes long, then a small response.
fn check_giant_line(case: &MegaCase) -> CaseResult {
    let mut r = CaseResult::new();
    let len = case.lines;
    let mut stream = Vec::with_capacity(len + 32);
    stream.extend_from_slice(b"a: ");
    stream.resize(3 + len, b'v');
    stream.extend_from_slice(b"\nb: c\nOK\nz: y\nOK\n");
    let seg = Seg::Chunk(case.chunk.max(1));
    // not through `run`: the observation would copy the value several times
    let obs = run(case.flavour, GREETING, &stream, &seg, 0);
    r.nontrivial();
    r.class("one_line_of_8MiB_and_more");
    let ok = obs.responses.len() == 2
        && obs.responses[0].frames.len() == 1
        && obs.responses[0].frames[0].fields.len() == 2
        && obs.responses[0].frames[0].fields[0].0 == "a"
        && obs.responses[0].frames[0].fields[0].1.len() == len
        && obs.responses[0].frames[0].fields[0].1.bytes().all(|b| b == b'v')
        && obs.responses[0].frames[0].fields[1] == ("b".to_string(), "c".to_string())
        && obs.responses[1].frames[0].fields == vec![("z".to_string(), "y".to_string())]
        && obs.terminal == Terminal::CleanEof;
    if !ok {
        r.fail(format!(
            "response with one value of {len} bytes + a second response, {:?}/{seg:?}: {} response(s), terminal {:?}",
            case.flavour,
            obs.responses.len(),
            obs.terminal
        ));
    }
    r
}

pub fn check_mega(case: &MegaCase) -> CaseResult {
    if case.lines >= 1 << 23 {
        return check_giant_line(case);
    }
    let mut r = CaseResult::new();
    let mut stream = Vec::with_capacity(case.lines * 5 + 16);
    for i in 0..case.lines {
        stream.extend_from_slice(if i % 2 == 0 { b"a: b\n" } else { b"c: d\n" });
    }
    stream.extend_from_slice(b"OK\nz: y\nOK\n");
    let seg = if case.chunk == 0 { Seg::Whole } else { Seg::Chunk(case.chunk) };
    let obs = run(case.flavour, GREETING, &stream, &seg, 0);
    r.nontrivial();
    r.class(if case.lines > 65_536 { "more_than_65536_lines" } else { "up_to_65536_lines" });
    let ok = obs.responses.len() == 2
        && obs.responses[0].frames.len() == 1
        && obs.responses[0].frames[0].fields.len() == case.lines
        && obs.responses[0].frames[0].fields.last().map(|(k, _)| k.as_str()) == Some(if case.lines % 2 == 1 { "a" } else { "c" })
        && obs.responses[1].frames[0].fields == vec![("z".to_string(), "y".to_string())]
        && obs.terminal == Terminal::CleanEof;
    if !ok {
        r.fail(format!(
            "response of {} lines + a second response, {:?}/{seg:?}: {} response(s), first has {} fields, terminal {:?}",
            case.lines,
            case.flavour,
            obs.responses.len(),
            obs.responses.first().and_then(|x| x.frames.first()).map_or(0, |f| f.fields.len()),
            obs.terminal
        ));
    }
    r
}

pub fn property(_tier: Tier) -> Property {
    Property {
        id: "C03",
        level: "exploration",
        parts: vec![Box::new(RandomPart {
            name: "roundtrip",
            rule: "proptest: 1-6 abstract responses (Single/List/Failed; keys incl. OK/list_OK/ACK/binary; values incl. keyword look-alikes, NUL, CR, multi-byte, up to 6k (thorough 20k) chars; payloads incl. protocol look-alikes and buffer-edge sizes up to 20k (40k)) on one connection, one generated segmentation, one of blocking/async/async-with-spurious-pending (1 in 4: blocking interrupted by a transient WouldBlock before every read and called again / async with every pending receive future dropped and re-created); non-trivial = keyword mimic, payload, list form with >=2 frames, error after >=1 completed frame, or >=2 responses; distinct by serialised case",
            cases: (6_000, 150_000),
            strategy: Box::new(strategy),
            check: Box::new(check),
        }), Box::new(crate::core::ExhaustivePart {
            name: "mega_responses",
            rule: "one response of N short lines followed by a small one, N in {65535, 65536, 65537, 131073, 200000, 300000 (thorough: + 1000000)} x {blocking, async} x {whole (the buffer doubles up to 4 MiB), 60000-byte chunks}: both responses must be delivered completely, then a clean end; and one response holding a single value of 8 MiB+3, 16 MiB+1, 32 MiB+5 bytes (thorough: + 64, 128 MiB) x {blocking, async}",
            space: Box::new(|t: Tier| {
                let mut sizes = vec![65_535usize, 65_536, 65_537, 131_073, 200_000, 300_000];
                if t == Tier::Thorough {
                    sizes.push(1_000_000);
                }
                // `lines` >= 2^23: not a line count but the length in bytes of ONE value line (just past
                // 8, 16, 32 MiB; thorough also 64 and 128 MiB)
                let mut giants = vec![(1usize << 23) + 3, (1 << 24) + 1, (1 << 25) + 5];
                if t == Tier::Thorough {
                    giants.extend([(1usize << 26) + 1, (1 << 27) + 9]);
                }
                Box::new(
                    sizes
                        .into_iter()
                        .flat_map(|lines| [Flavour::Blocking, Flavour::Async].into_iter().flat_map(move |flavour| [0usize, 60_000].into_iter().map(move |chunk| MegaCase { lines, flavour, chunk })))
                        .chain(giants.into_iter().flat_map(|lines| [Flavour::Blocking, Flavour::Async].into_iter().map(move |flavour| MegaCase { lines, flavour, chunk: 1_000_003 }))),
                )
            }),
            check: Box::new(check_mega),
        })],
        assumptions: vec![
            "the harness encoder (vlib::wire) defines 'well-formed server output'",
            "the greeting always ends a read",
        ],
        selftest: None,
    }
}
