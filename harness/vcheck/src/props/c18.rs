//! C18 — handshake: greeting accepted iff valid, password sent before anything else.

use proptest::prelude::*;
use serde::{Deserialize, Serialize};

use crate::{
    core::{escape_bytes, CaseResult, Property, RandomPart, Tier, B},
    mpdtok,
    props::c09::judge_connect,
    refdec::Greeting,
    seg::{seg_strategy, Seg},
    sim::{self, Connect, Password, PasswordVerdict, Script, SegPattern, Step},
    streamlab::{Flavour, FLAVOURS},
};

#[derive(Debug, Clone, Serialize, Deserialize)]
pub struct GreetingCase {
    pub bytes: B,
    pub seg: Seg,
    pub flavour: Flavour,
}

fn check_greeting(case: &GreetingCase) -> CaseResult {
    let mut r = CaseResult::new();
    match judge_connect(&case.bytes, &case.seg, case.flavour) {
        Err(e) => r.fail(format!("{:?} under {:?}/{:?}: {e}", escape_bytes(&case.bytes), case.seg, case.flavour)),
        Ok(g) => {
            let cut_inside = match &case.seg {
                Seg::Whole => false,
                _ => case.bytes.len() > 1,
            };
            r.class(match g {
                Greeting::Valid(..) => "valid",
                Greeting::Invalid => "invalid_line",
                Greeting::UnexpectedEof => "ends_before_line_end",
                Greeting::InvalidOrEof => "mismatching_and_unterminated",
            });
            r.class_if(cut_inside, "segmented");
            r.class_if(case.bytes.len() > 4096, "over_4k");
            if cut_inside || !matches!(g, Greeting::Valid(..)) {
                r.nontrivial();
            }
        }
    }
    r
}

#[derive(Debug, Clone, Serialize, Deserialize)]
pub struct SlowCase {
    pub version: String,
    /// cut offsets inside the greeting line
    pub cuts: Vec<usize>,
    pub pause_ms: u64,
    /// index of the first read that is slow (the one after it is slow too when the pause is short)
    pub at: usize,
    pub is_async: bool,
}

fn check_slow(case: &SlowCase) -> CaseResult {
    let mut r = CaseResult::new();
    r.nontrivial();
    let greeting = format!("OK MPD {}\n", case.version).into_bytes();
    let mut cuts: Vec<usize> = case.cuts.iter().map(|c| 1 + c % (greeting.len() - 1)).collect();
    cuts.sort_unstable();
    cuts.dedup();
    // the bytes play the role of greeting + first response; cut offsets count from the first byte,
    // one cut sits exactly behind the greeting (a server says nothing more before it was asked)
    cuts.push(greeting.len());
    let mut all = greeting.clone();
    all.extend_from_slice(b"a: b\nOK\n");
    let sleeps: Vec<(usize, u64)> = if case.pause_ms >= 1000 { vec![(case.at + 1, case.pause_ms)] } else { vec![(case.at + 1, case.pause_ms), (case.at + 2, case.pause_ms)] };
    r.class_if(case.pause_ms >= 1000, "pause_of_seconds");
    r.class_if(case.pause_ms >= 30_000, "pause_of_30s_and_more");
    let flavour = if case.is_async { Flavour::Async } else { Flavour::Blocking };
    let obs = crate::streamlab::run_slowly(flavour, b"", &all, &Seg::Cuts(cuts.clone()), 0, None, &sleeps);
    if obs.version.as_deref() != Some(case.version.as_str()) || obs.responses.len() != 1 || obs.terminal != crate::streamlab::Terminal::CleanEof {
        r.fail(format!(
            "valid greeting {:?} delivered in segments ending at {cuts:?} with {} ms of real time before read(s) {:?}, {flavour:?}: version {:?}, {} response(s), terminal {:?}",
            case.version,
            case.pause_ms,
            sleeps.iter().map(|s| s.0).collect::<Vec<_>>(),
            obs.version,
            obs.responses.len(),
            obs.terminal
        ));
    }
    r
}

fn greeting_bytes(huge: bool) -> impl Strategy<Value = B> {
    let top = if huge { 22u32 } else { 14 };
    let version = prop_oneof![
        5 => "[0-9]{1,2}\\.[0-9]{1,2}(\\.[0-9]{1,3})?",
        3 => "[^\\n]{1,30}",
        1 => "[^\\n]{4080,4110}",
        1 => "[^\\n]{8000,20000}",
        // the whole line is an exact multiple of a network-ish read size (the read that delivers the
        // line feed is completely full), or of a power of two
        2 => (prop_oneof![crate::seg::net_chunk(), Just(512usize), Just(4096)], 1..=4usize, any::<bool>()).prop_map(|(c, k, ascii)| {
            let n = c * k - 8;
            if ascii { "7".repeat(n) } else { format!("{}{}", "\u{e9}".repeat(n / 2), "x".repeat(n % 2)) }
        }),
        // sizes on a logarithmic scale up to 4 MiB
        1 => (12..=top, -1..=1i32).prop_map(|(k, d)| "v".repeat(((1i32 << k) + d) as usize)),
    ];
    prop_oneof![
        6 => version.clone().prop_map(|v| B(format!("OK MPD {v}\n").into_bytes())),
        // wrong prefix at each position
        2 => (0..7usize, any::<u8>(), version.clone()).prop_map(|(i, x, v)| {
            let mut b = format!("OK MPD {v}\n").into_bytes();
            b[i] ^= x.max(1);
            B(b)
        }),
        1 => Just(B::from("OK MPD \n")),
        1 => Just(B::from("OK MPD")),
        1 => Just(B::from("")),
        1 => Just(B(b"OK MPD \xff\xfe\n".to_vec())),
        1 => Just(B(b"OK MPD 0.\xc3\n".to_vec())),
        1 => Just(B::from("OK\n")),
        1 => Just(B::from("ok mpd 0.23.5\n")),
        1 => Just(B::from("OK MPD0.23.5\n")),
        // proper prefixes
        2 => (version, any::<u16>()).prop_map(|(v, at)| {
            let mut b = format!("OK MPD {v}\n").into_bytes();
            let n = crate::core::pick_idx(at, b.len());
            b.truncate(n);
            B(b)
        }),
    ]
}

// ---- Client::connect on arbitrary greetings ---------------------------------------------------------

#[derive(Debug, Clone, Serialize, Deserialize)]
pub struct ClientGreetingCase {
    pub bytes: B,
    pub seg: SegPattern,
    pub sched_seed: u64,
}

fn check_client_greeting(case: &ClientGreetingCase) -> CaseResult {
    let mut r = CaseResult::new();
    let want = crate::refdec::classify_greeting(&case.bytes);
    if let Greeting::Valid(_, n) = &want {
        if *n != case.bytes.len() {
            // bytes after the greeting line: a server sends none before it has read a command
            r.class("bytes_after_greeting_skipped");
            return r;
        }
    }
    let mut script = Script::new(vec![]);
    script.seg = case.seg.clone();
    script.sched_seed = case.sched_seed;
    script.greeting = Some(case.bytes.clone());
    let obs = sim::run(&script);
    if obs.panics > 0 {
        r.fail(format!("panic during Client::connect: {:?}", crate::core::last_panic()));
        return r;
    }
    let err = obs.connect_error.clone();
    let ok = match &want {
        Greeting::Valid(v, _) => {
            r.class("valid");
            err.is_none() && obs.version.as_deref() == Some(v.as_str())
        }
        Greeting::Invalid => {
            r.class("invalid_line");
            r.nontrivial();
            err.as_deref().is_some_and(|e| e.contains("InvalidMessage"))
        }
        Greeting::UnexpectedEof => {
            r.class("ends_before_line_end");
            r.nontrivial();
            err.as_deref().is_some_and(|e| e.contains("UnexpectedEof"))
        }
        Greeting::InvalidOrEof => {
            r.class("mismatching_and_unterminated");
            r.nontrivial();
            err.as_deref().is_some_and(|e| e.contains("UnexpectedEof") || e.contains("InvalidMessage"))
        }
    };
    if case.seg != SegPattern::Whole && case.bytes.len() > 1 {
        r.nontrivial();
    }
    if !ok {
        r.fail(format!(
            "Client::connect on {:?} under {:?}: error {err:?}, version {:?}; the greeting grammar says {want:?}",
            escape_bytes(&case.bytes),
            case.seg,
            obs.version
        ));
    }
    r
}

// ---- Client::connect over the simulator ----------------------------------------------------------

#[derive(Debug, Clone, Serialize, Deserialize)]
pub struct PwCase {
    /// None: Client::connect; Some: connect_with_password / connect_with_password_opt
    pub password: Option<Password>,
    pub use_opt_api: bool,
    pub seg: SegPattern,
    pub sched_seed: u64,
    /// complete lines that arrive in the same read as the greeting, before the client has sent anything
    #[serde(default)]
    pub greeting_tail: Option<crate::core::B>,
}

fn check_password(case: &PwCase) -> CaseResult {
    let mut r = CaseResult::new();
    let mut script = Script::new(vec![Step::Advance(150)]);
    script.seg = case.seg.clone();
    script.greeting_tail = case.greeting_tail.clone();
    r.class_if(case.greeting_tail.is_some(), "unasked_lines_with_the_greeting");
    script.sched_seed = case.sched_seed;
    script.broken_pipe = false;
    let connect = match (&case.password, case.use_opt_api) {
        (None, false) => Connect::Plain,
        (None, true) => Connect::PasswordOpt(None),
        (Some(p), false) => Connect::Password(p.clone()),
        (Some(p), true) => Connect::PasswordOpt(Some(p.clone())),
    };
    let obs = sim::run_with(&script, connect);
    if obs.panics > 0 {
        r.fail(format!("panic during connect: {:?}", crate::core::last_panic()));
        return r;
    }
    let lines: Vec<Vec<u8>> = obs
        .transcript
        .iter()
        .filter_map(|t| match t {
            sim::Tx::Line { line, .. } => Some(line.clone()),
            _ => None,
        })
        .collect();
    let shown: Vec<String> = lines.iter().map(|l| escape_bytes(l)).collect();
    let Some(pw) = &case.password else {
        r.class("no_password");
        if obs.connect_error.is_some() {
            r.fail(format!("connect without password failed: {:?}", obs.connect_error));
        } else if lines.first().map(Vec::as_slice) != Some(b"idle") {
            r.fail(format!("without a password the first line written must be idle, got {shown:?}"));
        } else if obs.version.as_deref() != Some("0.23.5") {
            r.fail(format!("protocol_version() = {:?}", obs.version));
        }
        return r;
    };
    r.nontrivial = !matches!(pw.verdict, PasswordVerdict::Ok) || pw.cut.is_some();
    // the password is the first thing written, as one argument
    match lines.first().map(|l| mpdtok::tokenize(l)) {
        Some(Ok(toks)) if toks.len() == 2 && toks[0] == b"password" => {
            if toks[1] != pw.password.as_bytes() {
                // quoting defects of the argument encoder belong to C06 (open finding F-C)
                if pw.password.bytes().any(|b| b == b'"' || b == b'\'' || b == b'\\') {
                    r.class("password_in_f_c_class");
                } else {
                    r.fail(format!("the server reads the password {:?}, supplied {:?}", escape_bytes(&toks[1]), pw.password));
                    return r;
                }
            }
        }
        Some(Err(_)) if pw.password.bytes().any(|b| b == b'"' || b == b'\'' || b == b'\\') => r.class("password_in_f_c_class"),
        other => {
            r.fail(format!("with a password the first line written must be `password <pw>`, got {shown:?} ({other:?})"));
            return r;
        }
    }
    let full_len = match pw.verdict {
        PasswordVerdict::Ok => 3,
        PasswordVerdict::OkWithFields => 17,
        PasswordVerdict::Ack(c) => format!("ACK [{c}@0] {{password}} incorrect password\n").len(),
        PasswordVerdict::Close => 0,
        PasswordVerdict::Garbage => 13,
    };
    let complete = pw.cut.is_none_or(|c| c >= full_len);
    let err = obs.connect_error.clone();
    let later: Vec<&String> = shown.iter().skip(1).collect();
    match (&pw.verdict, complete) {
        (PasswordVerdict::Ok | PasswordVerdict::OkWithFields, true) => {
            r.class("accepted");
            if err.is_some() {
                r.fail(format!("accepted password, but connect failed: {err:?}"));
            } else if later.first().map(|s| s.as_str()) != Some("idle") {
                r.fail(format!("after the password was accepted the next line must be idle, got {shown:?}"));
            }
        }
        (PasswordVerdict::Ack(_), true) => {
            r.class("rejected_by_ack");
            match &err {
                Some(e) if e.contains("IncorrectPassword") => {}
                other => {
                    r.fail(format!("the server rejected the password with an ACK; connect returned {other:?}, expected IncorrectPassword"));
                    return r;
                }
            }
            if !later.is_empty() {
                r.fail(format!("lines written after the password was rejected: {later:?}"));
            }
        }
        _ => {
            r.class("verdict_cut_closed_or_garbage");
            match &err {
                Some(e) if e.contains("ProtocolError") => {}
                other => {
                    r.fail(format!("verdict {:?} cut at {:?}: connect returned {other:?}, expected a protocol error", pw.verdict, pw.cut));
                    return r;
                }
            }
            if !later.is_empty() {
                r.fail(format!("lines written although the password exchange failed: {later:?}"));
            }
        }
    }
    // idle is never written before the verdict's last byte was read
    for t in &obs.transcript {
        if let sim::Tx::Line { line, unread, .. } = t {
            if mpdtok::c_line(line) == b"idle" && *unread > 0 {
                r.fail(format!("idle written while {unread} byte(s) of the server's verdict were unread"));
            }
        }
    }
    r
}

fn password() -> impl Strategy<Value = Password> {
    (
        prop_oneof![4 => "[a-zA-Z0-9]{1,12}", 2 => "[ -~]{1,16}", 1 => "[a-z \u{e4}\u{4e2d}]{1,8}", 1 => Just(String::new())],
        prop_oneof![
            4 => Just(PasswordVerdict::Ok),
            1 => Just(PasswordVerdict::OkWithFields),
            3 => prop_oneof![Just(3u64), Just(4), Just(5), Just(2), 1..60u64].prop_map(PasswordVerdict::Ack),
            1 => Just(PasswordVerdict::Close),
            1 => Just(PasswordVerdict::Garbage),
        ],
        prop_oneof![3 => Just(None), 2 => (0..50usize).prop_map(Some)],
    )
        .prop_map(|(password, verdict, cut)| Password { password, verdict, cut })
}

pub fn property(_tier: Tier) -> Property {
    Property {
        id: "C18",
        level: "exploration",
        parts: vec![
            Box::new(RandomPart {
                name: "greeting",
                rule: "proptest: greeting bytes = valid (numeric versions, arbitrary UTF-8 versions, versions beyond 4 KiB and 8-20 KiB, lines that are an exact multiple of 536/1024/1448/1460/1500/9000/... bytes, versions of 2^k+-1 bytes up to 4 MiB) | one byte of the prefix flipped | empty version | invalid UTF-8 | wrong case / missing blank | proper prefix of a valid greeting | empty; one generated segmentation of the greeting bytes themselves (random cuts over its whole length, fixed chunks incl. network read sizes, one-byte); blocking / async / async+pending connect; judged by the reference greeting classifier: Ok(version verbatim) iff 'OK MPD <non-empty utf8>\\n', InvalidMessage for a malformed line, UnexpectedEof for a viable proper prefix. non-trivial = segmented or not a valid greeting",
                cases: (20_000, 1_500_000),
                strategy: Box::new(|_t| {
                    greeting_bytes(true)
                        .prop_flat_map(|bytes| {
                            let n = bytes.0.len();
                            // byte-sized reads over megabytes only cost time
                            let seg = if n > 100_000 {
                                prop_oneof![Just(Seg::Whole), Just(Seg::Chunk(65_535)), Just(Seg::Chunk(60_000)), Just(Seg::Chunk(1 << 20)), Just(Seg::Cuts(vec![n.saturating_sub(1)])), Just(Seg::Cuts(vec![n.saturating_sub(2), n / 2]))].boxed()
                            } else {
                                prop_oneof![3 => seg_strategy(n), 1 => crate::seg::net_chunk().prop_map(Seg::Chunk)].boxed()
                            };
                            (Just(bytes), seg, (0..3usize).prop_map(|i| FLAVOURS[i]))
                        })
                        .prop_map(|(bytes, seg, flavour)| GreetingCase { bytes, seg, flavour })
                        .boxed()
                }),
                check: Box::new(check_greeting),
            }),
            Box::new(RandomPart {
                name: "client_greeting",
                rule: "proptest over the simulator: the same greeting byte classes fed to Client::connect under whole/per-line/one-byte/chunked segmentation, the peer closing after them; connect must succeed with the version verbatim iff the bytes are a valid greeting line, otherwise fail with InvalidMessage / UnexpectedEof as the greeting grammar says. non-trivial = invalid or segmented",
                cases: (5_000, 300_000),
                strategy: Box::new(|_t| {
                    (greeting_bytes(false), crate::props::simgen::seg_pattern(), any::<u64>())
                        .prop_map(|(bytes, seg, sched_seed)| ClientGreetingCase { bytes, seg, sched_seed })
                        .boxed()
                }),
                check: Box::new(check_client_greeting),
            }),
            Box::new(RandomPart {
                name: "slow_greeting",
                rule: "proptest: a valid greeting that arrives in 3-6 segments while REAL time passes before two of the reads (quick: 30-150 ms each; thorough: one of 1.2 / 5.2 / 10.5 / 31 / 61 s once), blocking and async connect, then one small response: connecting succeeds with the version verbatim however long the peer takes (the protocol layer has no business with the wall clock), and the response after it is delivered. non-trivial = every case",
                cases: (32, 64),
                strategy: Box::new(|t: Tier| {
                    let pause = match t {
                        Tier::Quick => prop_oneof![30..150u64].boxed(),
                        Tier::Thorough => prop_oneof![3 => 30..150u64, 1 => Just(1_200u64), 1 => Just(5_200), 1 => Just(10_500), 1 => Just(31_000), 1 => Just(61_000)].boxed(),
                    };
                    ("[0-9]{1,2}\\.[0-9]{1,2}\\.[0-9]{1,3}[ -~]{0,40}", prop::collection::vec(1..60usize, 2..=5), pause, 0..3usize, any::<bool>())
                        .prop_map(|(version, cuts, pause_ms, at, is_async)| SlowCase { version, cuts, pause_ms, at, is_async })
                        .boxed()
                }),
                check: Box::new(check_slow),
            }),
            Box::new(crate::core::ExhaustivePart {
                name: "slow_greeting_half_a_minute",
                rule: "the same with ONE pause of 31 s of real time (thorough: also 61 s and 121 s) before the second read, blocking and async, evaluated in parallel: a peer that takes half a minute to finish its greeting line is slow, not wrong (round numbers of seconds are what people pick for timeouts). Costs the quick tier 31 s of wall clock per build profile",
                space: Box::new(|t: Tier| {
                    let pauses: Vec<u64> = if t == Tier::Thorough { vec![31_000, 61_000, 121_000] } else { vec![31_000] };
                    Box::new(pauses.into_iter().flat_map(|pause_ms| [false, true].into_iter().map(move |is_async| SlowCase { version: "0.23.5".into(), cuts: vec![3, 7, 10], pause_ms, at: 0, is_async })))
                }),
                check: Box::new(check_slow),
            }),
            Box::new(RandomPart {
                name: "password",
                rule: "proptest over the simulator: Client::connect / connect_with_password / connect_with_password_opt with printable and multi-byte passwords; server verdict OK | OK with fields | ACK with any code | close | garbage, each optionally cut after 0-49 bytes followed by a close; any segmentation; in 1 case of 8 the peer sends complete unasked lines (OK, an ACK, a field) in the same read as its greeting, which must not be taken for the verdict. Write log: first line `password <pw>` (or idle without password), idle only after the verdict was read completely and only if it was OK, ACK => IncorrectPassword and nothing further written, cut/close/garbage => ProtocolError and nothing further written. non-trivial = non-OK verdict or a cut",
                cases: (10_000, 3_000_000),
                strategy: Box::new(|_t| {
                    (
                        prop::option::weighted(0.85, password()),
                        any::<bool>(),
                        crate::props::simgen::seg_pattern(),
                        any::<u64>(),
                        prop::option::weighted(0.12, prop_oneof![Just("OK\n"), Just("OK\nOK\n"), Just("motd: hello\nOK\n"), Just("ACK [4@0] {} not yet\n"), Just("list_OK\nOK\n")]),
                    )
                        .prop_map(|(password, use_opt_api, seg, sched_seed, tail)| PwCase { password, use_opt_api, seg, sched_seed, greeting_tail: tail.map(crate::core::B::from) })
                        .boxed()
                }),
                check: Box::new(check_password),
            }),
        ],
        assumptions: vec![
            "the reference classifier (vlib::refdec::classify_greeting) follows the greeting grammar",
            "passwords are single lines without NUL; quoting of passwords with quotes/backslashes is C06's matter",
        ],
        selftest: Some(crate::refdec::selftest),
    }
}
