//! C13 — command lists are framed as one batch and typed replies pair positionally.
//! Part 1 (here): framing bytes of raw and typed lists. Part 2: typed pairing against the
//! simulated server (props/c13_sim.rs).

use mpd_client::commands::{Command as TypedCommand, CommandList as TypedList};
use mpd_protocol::{response::Frame, Command, CommandList};
use proptest::prelude::*;
use serde::{Deserialize, Serialize};

use crate::{
    cmdlab::{arg_string, sent_bytes, sent_list_bytes, valid_name},
    core::{escape_bytes, CaseResult, Property, RandomPart, Tier},
};

#[derive(Debug, Clone, Serialize, Deserialize)]
pub struct Case {
    pub cmds: Vec<(String, Vec<String>)>,
    /// per command after the first: 0 add, 1 command(), 2 extend (runs of 2 are batched)
    pub how: Vec<u8>,
}

fn build(name: &str, args: &[String]) -> Option<Command> {
    let mut c = Command::build(name).ok()?;
    for a in args {
        c.add_argument(a.as_str()).ok()?;
    }
    Some(c)
}

pub fn expected_block(singles: &[Vec<u8>]) -> Vec<u8> {
    match singles.len() {
        0 => Vec::new(),
        1 => singles[0].clone(),
        _ => {
            let mut out = b"command_list_ok_begin\n".to_vec();
            for s in singles {
                out.extend_from_slice(s);
            }
            out.extend_from_slice(b"command_list_end\n");
            out
        }
    }
}

pub fn check(case: &Case) -> CaseResult {
    let mut r = CaseResult::new();
    let cmds: Vec<Command> = case.cmds.iter().filter_map(|(n, a)| build(n, a)).collect();
    if cmds.is_empty() {
        r.class("all_rejected");
        return r;
    }
    let n = cmds.len();
    let singles: Vec<Vec<u8>> = cmds.iter().map(|c| sent_bytes(c.clone())).collect();
    for s in &singles {
        if s.iter().filter(|b| **b == b'\n').count() != 1 || s.last() != Some(&b'\n') {
            r.fail(format!("single command not exactly one line: {:?}", escape_bytes(s)));
            return r;
        }
    }
    let mut it = cmds.into_iter();
    let mut list = CommandList::new(it.next().unwrap());
    let mut pending: Vec<Command> = Vec::new();
    for (i, c) in it.enumerate() {
        match case.how.get(i).copied().unwrap_or(0) % 3 {
            0 => {
                // an iterator whose size hint is inexact (lower bound 0)
                list.extend(pending.drain(..).filter(|_| true));
                list.add(c);
            }
            1 => {
                // an iterator that under-reports (flat_map) its length
                list.extend(pending.drain(..).flat_map(Some));
                list = list.command(c);
            }
            _ => pending.push(c),
        }
    }
    list.extend(pending);
    // how the list reaches the sender: as built, cloned, or cloned INTO an existing list of another
    // length (`clone_from`, which a type may implement by hand)
    let sel = case.how.iter().map(|h| *h as usize).sum::<usize>() / 5 % 7;
    let filler = |k: usize| {
        let mut d = CommandList::new(Command::new("stale"));
        for i in 1..k.max(1) {
            d.add(Command::new("stale").argument(i.to_string()));
        }
        d
    };
    match sel {
        1 => list = list.clone(),
        2..=6 => {
            let k = [1, n.saturating_sub(1), n, n + 1, n + 3][sel - 2];
            let mut d = filler(k);
            d.clone_from(&list);
            list = d;
            r.class("via_clone_from");
        }
        _ => {}
    }
    if list.len() != n {
        r.fail(format!("len() = {} for {n} commands", list.len()));
        return r;
    }
    // the asynchronous connection must frame identically, also over a transport that takes only a
    // few bytes per write
    let max_write = [usize::MAX, 1, 7, 16, 64][case.how.iter().map(|h| *h as usize).sum::<usize>() % 5];
    if let Err(e) = crate::cmdlab::both_flavours_agree(&Command::new("ping"), Some(&list), max_write) {
        r.fail(e);
        return r;
    }
    r.class_if(max_write != usize::MAX, "async_partial_writes");
    let bytes = sent_list_bytes(list);
    let want = expected_block(&singles);
    r.class(match n {
        1 => "n_1",
        2 => "n_2",
        3..=9 => "n_3_to_9",
        _ => "n_10_plus",
    });
    if n >= 2 {
        r.nontrivial();
    }
    if bytes != want {
        r.fail(format!("list of {n} written as {:?}, expected {:?}", escape_bytes(&bytes), escape_bytes(&want)));
    }
    r
}

/// Typed probe used for the typed framing check: renders `probe <token>`.
#[derive(Debug, Clone)]
pub struct Probe(pub String);

impl TypedCommand for Probe {
    type Response = String;
    fn command(&self) -> Command {
        Command::new("probe").argument(self.0.as_str())
    }
    fn response(self, frame: Frame) -> Result<String, mpd_client::responses::TypedResponseError> {
        frame.find("tok").map(str::to_string).ok_or_else(|| mpd_client::responses::TypedResponseError::missing("tok"))
    }
}

#[derive(Debug, Clone, Serialize, Deserialize)]
pub struct TypedCase {
    pub n: usize,
    pub tuple: bool,
}

fn typed_raw(case: &TypedCase) -> Option<CommandList> {
    let p = |i: usize| Probe(format!("t{i}"));
    if !case.tuple {
        return (0..case.n).map(p).collect::<Vec<_>>().command_list();
    }
    match case.n {
        1 => (p(0),).command_list(),
        2 => (p(0), p(1)).command_list(),
        3 => (p(0), p(1), p(2)).command_list(),
        4 => (p(0), p(1), p(2), p(3)).command_list(),
        5 => (p(0), p(1), p(2), p(3), p(4)).command_list(),
        6 => (p(0), p(1), p(2), p(3), p(4), p(5)).command_list(),
        7 => (p(0), p(1), p(2), p(3), p(4), p(5), p(6)).command_list(),
        _ => (p(0), p(1), p(2), p(3), p(4), p(5), p(6), p(7)).command_list(),
    }
}

pub fn check_typed(case: &TypedCase) -> CaseResult {
    let mut r = CaseResult::new();
    let n = if case.tuple { case.n.clamp(1, 8) } else { case.n };
    let singles: Vec<Vec<u8>> = (0..n).map(|i| format!("probe t{i}\n").into_bytes()).collect();
    let raw = typed_raw(&TypedCase { n, tuple: case.tuple });
    r.class(if case.tuple { "tuple" } else { "vec" });
    match (n, raw) {
        (0, None) => {
            r.class("empty_list_writes_nothing");
            r.nontrivial();
        }
        (0, Some(_)) => r.fail("an empty typed list produced a raw command list"),
        (_, None) => r.fail(format!("typed list of {n} produced no raw command list")),
        (_, Some(list)) => {
            if n >= 2 {
                r.nontrivial();
            }
            if list.len() != n {
                r.fail(format!("typed list of {n} gives a raw list of {}", list.len()));
                return r;
            }
            let bytes = sent_list_bytes(list);
            let want = expected_block(&singles);
            if bytes != want {
                r.fail(format!("typed list of {n} written as {:?}, expected {:?}", escape_bytes(&bytes), escape_bytes(&want)));
            }
        }
    }
    r
}

pub fn property(_tier: Tier) -> Property {
    Property {
        id: "C13",
        level: "exploration",
        parts: vec![
            Box::new(RandomPart {
                name: "raw_framing",
                rule: "proptest: 1-40 commands with 0-3 arguments, list assembled by mixes of new/add/command/extend; bytes written by send_list must be the bare line (n=1) or command_list_ok_begin + the n lines in order + command_list_end; non-trivial = n >= 2; distinct by serialised case",
                cases: (20_000, 5_000_000),
                strategy: Box::new(|_t| {
                    (
                        prop::collection::vec((valid_name(), prop::collection::vec(arg_string(12), 0..=3usize)), 1..=40usize),
                        prop::collection::vec(0..3u8, 40),
                    )
                        .prop_map(|(cmds, how)| Case { cmds, how })
                        .boxed()
                }),
                check: Box::new(check),
            }),
            Box::new(RandomPart {
                name: "typed_framing",
                rule: "tuples of arity 1-8 and Vecs of length 0-12 of probe commands: CommandList::command_list() must be None exactly for the empty Vec, otherwise a raw list of n commands written as above; non-trivial = n = 0 or n >= 2",
                cases: (2_000, 20_000),
                strategy: Box::new(|_t| (0..=12usize, any::<bool>()).prop_map(|(n, tuple)| TypedCase { n, tuple }).boxed()),
                check: Box::new(check_typed),
            }),
            crate::props::c13_sim::part(),
            crate::props::c13_sim::dead_part(),
            Box::new(RandomPart {
                name: "list_replies_interrupted",
                rule: "protocol layer: the reply to a command list of 2-9 commands, most of whose replies are empty (a frame that is nothing but list_OK) or one short field, optionally failing part-way; received with a read boundary after every line / one byte at a time / in 3-byte pieces by a blocking receive that is interrupted by a transient WouldBlock before every read and called again, or by an async receive whose future is dropped whenever it is pending; frame i must be the reply to command i (C03's round-trip judge). non-trivial = at least two leading empty frames",
                cases: (20_000, 2_000_000),
                strategy: Box::new(|_t| {
                    use crate::{seg::Seg, streamlab::Flavour, wire::{AFrame, AResp, Item}};
                    let frame = prop_oneof![
                        3 => Just(AFrame { items: vec![] }),
                        1 => "[a-z]{1,4}".prop_map(|v| AFrame { items: vec![Item::Field("volume".into(), v)] }),
                        1 => ("[a-z]{1,4}", "[a-z]{0,3}").prop_map(|(a, b)| AFrame { items: vec![Item::Field("a".into(), a), Item::Field("b".into(), b)] }),
                    ];
                    (
                        prop::collection::vec(frame.clone(), 2..=9usize),
                        prop::option::weighted(0.2, (frame, crate::wire::ack())),
                        0..3u8,
                        any::<bool>(),
                        prop::collection::vec(prop_oneof![1 => Just(AResp::Single(AFrame { items: vec![] }))], 0..2usize),
                    )
                        .prop_map(|(frames, fail, seg, blocking, after)| {
                            let first = match fail {
                                None => AResp::List(frames),
                                Some((partial, ack)) => AResp::Failed { completed: frames, partial, ack },
                            };
                            let mut resps = vec![first];
                            resps.extend(after);
                            let bytes = crate::wire::encode(&resps).bytes;
                            let seg = match seg {
                                0 => Seg::Cuts(bytes.iter().enumerate().filter(|(_, b)| **b == b'\n').map(|(i, _)| i + 1).collect()),
                                1 => Seg::OneByte,
                                _ => Seg::Chunk(3),
                            };
                            crate::props::c03::Case { resps, seg, flavour: if blocking { Flavour::BlockingInterrupted } else { Flavour::AsyncCancelled }, via: 0 }
                        })
                        .boxed()
                }),
                check: Box::new(|c: &crate::props::c03::Case| {
                    let mut r = crate::props::c03::check(c);
                    let leading_empty = match c.resps.first() {
                        Some(crate::wire::AResp::List(f)) | Some(crate::wire::AResp::Failed { completed: f, .. }) => f.iter().take_while(|x| x.items.is_empty()).count(),
                        _ => 0,
                    };
                    r.nontrivial = leading_empty >= 2;
                    r.classes.clear();
                    r.class(if leading_empty >= 1 { "leading_empty_frames" } else { "first_frame_not_empty" });
                    r
                }),
            }),
        ],
        assumptions: vec!["typed pairing is judged against the simulated MPD of vlib::sim"],
        selftest: None,
    }
}
