//! Runner shared by all properties: seeded proptest generation on fixed logical workers, shrinking,
//! replay files, known-finding handling, evidence files. See DESIGN.md section 3.2.

use std::{
    cell::RefCell,
    collections::{hash_map::DefaultHasher, BTreeMap, HashSet},
    fmt::Debug,
    hash::{Hash, Hasher},
    panic::{self, AssertUnwindSafe},
    path::{Path, PathBuf},
    sync::{
        atomic::{AtomicBool, AtomicU64, Ordering},
        Mutex,
    },
    time::Instant,
};

use proptest::{
    strategy::{BoxedStrategy, Strategy, ValueTree},
    test_runner::{Config, RngAlgorithm, TestRng, TestRunner},
};
use serde::{de::DeserializeOwned, Deserialize, Serialize};
use serde_json::{json, Value};

pub const WORKERS: usize = 16;

#[derive(Clone, Copy, Debug, PartialEq, Eq)]
pub enum Tier {
    Quick,
    Thorough,
}

impl Tier {
    pub fn name(self) -> &'static str {
        match self {
            Tier::Quick => "quick",
            Tier::Thorough => "thorough",
        }
    }
    pub fn pick<T>(self, quick: T, thorough: T) -> T {
        match self {
            Tier::Quick => quick,
            Tier::Thorough => thorough,
        }
    }
}

#[derive(Clone, Debug)]
pub struct Cfg {
    pub tier: Tier,
    pub seed: u64,
}

#[derive(Clone, Debug, PartialEq)]
pub enum Outcome {
    Pass,
    /// Fails exactly in the way an *open* known finding describes.
    Known { finding: &'static str, what: String },
    Fail(String),
}

#[derive(Clone, Debug)]
pub struct CaseResult {
    pub outcome: Outcome,
    pub nontrivial: bool,
    pub classes: Vec<&'static str>,
    /// executions of the code under test inside this case (0 = count the case as one)
    pub execs: u64,
}

impl Default for CaseResult {
    fn default() -> Self {
        Self::new()
    }
}

impl CaseResult {
    pub fn new() -> Self {
        CaseResult { outcome: Outcome::Pass, nontrivial: false, classes: Vec::new(), execs: 0 }
    }
    pub fn class(&mut self, c: &'static str) {
        if !self.classes.contains(&c) {
            self.classes.push(c);
        }
    }
    pub fn class_if(&mut self, cond: bool, c: &'static str) {
        if cond {
            self.class(c);
        }
    }
    pub fn nontrivial(&mut self) {
        self.nontrivial = true;
    }
    /// Record a failure; the first failure wins, a real failure overrides a known finding.
    pub fn fail(&mut self, msg: impl Into<String>) {
        match self.outcome {
            Outcome::Fail(_) => {}
            _ => {
                let mut m: String = msg.into();
                if m.len() > 3000 {
                    let total = m.len();
                    let mut cut = 1500;
                    while !m.is_char_boundary(cut) {
                        cut -= 1;
                    }
                    let mut tail = total - 600;
                    while !m.is_char_boundary(tail) {
                        tail += 1;
                    }
                    m = format!("{} ...[{} bytes omitted]... {}", &m[..cut], tail - cut, &m[tail..]);
                }
                self.outcome = Outcome::Fail(m)
            }
        }
    }
    pub fn known(&mut self, finding: &'static str, what: impl Into<String>) {
        if self.outcome == Outcome::Pass {
            self.outcome = Outcome::Known { finding, what: what.into() };
        }
    }
    pub fn failed(&self) -> bool {
        matches!(self.outcome, Outcome::Fail(_))
    }
    pub fn ok(&self) -> bool {
        self.outcome == Outcome::Pass
    }
}

#[macro_export]
macro_rules! ensure {
    ($r:expr, $cond:expr, $($fmt:tt)+) => {
        if !($cond) {
            $r.fail(format!($($fmt)+));
            return $r;
        }
    };
}

// ---------------------------------------------------------------------------------------------
// panic capture

thread_local! {
    static IN_GUARD: std::cell::Cell<u32> = const { std::cell::Cell::new(0) };
    static LAST_PANIC: RefCell<Option<String>> = const { RefCell::new(None) };
    static PANIC_COUNT: std::cell::Cell<u64> = const { std::cell::Cell::new(0) };
}

pub fn install_panic_hook() {
    let verbose = std::env::var_os("VERIF_PANIC_VERBOSE").is_some();
    panic::set_hook(Box::new(move |info| {
        let msg = if let Some(s) = info.payload().downcast_ref::<&str>() {
            s.to_string()
        } else if let Some(s) = info.payload().downcast_ref::<String>() {
            s.clone()
        } else {
            "<non-string panic>".to_string()
        };
        let loc = info
            .location()
            .map(|l| format!("{}:{}", l.file(), l.line()))
            .unwrap_or_else(|| "?".into());
        let text = format!("{msg} at {loc}");
        // panics outside a guarded region are harness bugs: never swallow them silently
        if verbose || IN_GUARD.with(|g| g.get()) == 0 {
            eprintln!("[panic] {text}");
        }
        LAST_PANIC.with(|p| *p.borrow_mut() = Some(text));
        PANIC_COUNT.with(|c| c.set(c.get() + 1));
    }));
}

/// Number of panics seen on this thread so far (including ones tokio caught inside tasks).
pub fn panic_count() -> u64 {
    PANIC_COUNT.with(|c| c.get())
}

pub fn last_panic() -> Option<String> {
    LAST_PANIC.with(|p| p.borrow().clone())
}

/// Runs `f` inside a destructor while the thread is unwinding from a (harness-made, contained) panic:
/// what clean-up code in a `Drop` impl does. `std::thread::panicking()` is true inside `f`.
pub fn while_unwinding<T>(f: impl FnOnce() -> T) -> T {
    type Slot<T> = std::cell::Cell<Option<std::thread::Result<T>>>;
    struct Guard<'a, F: FnOnce() -> T, T>(Option<F>, &'a Slot<T>);
    impl<F: FnOnce() -> T, T> Drop for Guard<'_, F, T> {
        fn drop(&mut self) {
            if let Some(f) = self.0.take() {
                // a panic of `f` must not leave the destructor (that would abort the process)
                self.1.set(Some(panic::catch_unwind(AssertUnwindSafe(f))));
            }
        }
    }
    let out: Slot<T> = std::cell::Cell::new(None);
    IN_GUARD.with(|g| g.set(g.get() + 1));
    let _ = panic::catch_unwind(AssertUnwindSafe(|| {
        let _guard = Guard(Some(f), &out);
        panic::resume_unwind(Box::new("harness: unwinding on purpose"));
    }));
    IN_GUARD.with(|g| g.set(g.get() - 1));
    match out.into_inner().expect("harness: the destructor ran") {
        Ok(v) => v,
        Err(payload) => {
            LAST_PANIC.with(|p| {
                let mut p = p.borrow_mut();
                if let Some(m) = p.as_mut() {
                    m.push_str(" [called from a destructor while the thread was unwinding]");
                }
            });
            panic::resume_unwind(payload)
        }
    }
}

/// Marks the calling (helper) thread as running code under test for good: panics there are recorded,
/// not printed.
pub fn enter_guard() {
    IN_GUARD.with(|g| g.set(g.get() + 1));
}

/// Run `f`, turning a panic into `Err(message at location)`.
pub fn catch<T>(f: impl FnOnce() -> T) -> Result<T, String> {
    IN_GUARD.with(|g| g.set(g.get() + 1));
    let res = panic::catch_unwind(AssertUnwindSafe(f));
    IN_GUARD.with(|g| g.set(g.get() - 1));
    match res {
        Ok(v) => Ok(v),
        Err(_) => Err(last_panic().unwrap_or_else(|| "panic".into())),
    }
}

/// Run `f` on a freshly spawned thread and wait for it (an object under test changes threads between
/// two calls: nothing may depend on which thread uses it). The caller's tracing dispatcher goes along;
/// a panic over there is re-raised here, with its message, as if it had happened on this thread.
pub fn on_other_thread<T: Send>(f: impl FnOnce() -> T + Send) -> T {
    let dispatch = tracing::dispatcher::get_default(|d| d.clone());
    let res: Result<T, Option<String>> = std::thread::scope(|s| {
        s.spawn(move || {
            IN_GUARD.with(|g| g.set(1));
            tracing::dispatcher::with_default(&dispatch, || panic::catch_unwind(AssertUnwindSafe(f)).map_err(|_| last_panic()))
        })
        .join()
        .expect("harness: helper thread")
    });
    match res {
        Ok(v) => v,
        Err(msg) => {
            LAST_PANIC.with(|p| *p.borrow_mut() = msg.map(|m| format!("{m} [on another thread than the one that created the object]")));
            PANIC_COUNT.with(|c| c.set(c.get() + 1));
            panic::resume_unwind(Box::new("panic on helper thread"))
        }
    }
}

// ---------------------------------------------------------------------------------------------
// helpers

pub fn splitmix64(mut x: u64) -> u64 {
    x = x.wrapping_add(0x9E37_79B9_7F4A_7C15);
    let mut z = x;
    z = (z ^ (z >> 30)).wrapping_mul(0xBF58_476D_1CE4_E5B9);
    z = (z ^ (z >> 27)).wrapping_mul(0x94D0_49BB_1331_11EB);
    z ^ (z >> 31)
}

pub fn stable_hash<T: Hash + ?Sized>(t: &T) -> u64 {
    let mut h = DefaultHasher::new();
    t.hash(&mut h);
    h.finish()
}

fn rng_for(seed: u64, part: &str, worker: usize) -> TestRng {
    let mut s = splitmix64(seed ^ stable_hash(part));
    s = splitmix64(s ^ (worker as u64).wrapping_mul(0xA24B_AED4_963E_E407));
    let mut bytes = [0u8; 32];
    for chunk in bytes.chunks_mut(8) {
        s = splitmix64(s);
        chunk.copy_from_slice(&s.to_le_bytes());
    }
    TestRng::from_seed(RngAlgorithm::ChaCha, &bytes)
}

fn runner_for(seed: u64, part: &str, worker: usize) -> TestRunner {
    let config = Config { failure_persistence: None, ..Config::default() };
    TestRunner::new_with_rng(config, rng_for(seed, part, worker))
}

/// Monotone index map: shrinks towards the first alternative.
pub fn pick_idx(x: u16, len: usize) -> usize {
    debug_assert!(len > 0);
    ((x as usize) * len) >> 16
}

fn truncate_sample(v: Value) -> Value {
    let s = v.to_string();
    if s.len() <= 3000 {
        v
    } else {
        let mut cut = 3000;
        while !s.is_char_boundary(cut) {
            cut -= 1;
        }
        json!({ "truncated_json": &s[..cut], "full_len": s.len() })
    }
}

// ---------------------------------------------------------------------------------------------
// parts

pub struct Failure {
    pub case: Value,
    pub reason: String,
}

pub struct PartReport {
    pub name: &'static str,
    pub rule: &'static str,
    pub evaluations: u64,
    pub executions: u64,
    pub distinct: HashSet<u64>,
    pub classes: BTreeMap<&'static str, u64>,
    pub samples: Vec<Value>,
    pub excluded_known: u64,
    pub known_hits: BTreeMap<&'static str, (u64, String)>,
    pub failure: Option<Failure>,
    pub exhaustive: bool,
    pub wall_s: f64,
}

pub trait Part: Sync + Send {
    fn name(&self) -> &'static str;
    fn run(&self, cfg: &Cfg) -> PartReport;
    fn replay(&self, case: &Value) -> Result<CaseResult, String>;
}

#[derive(Default)]
struct WorkerStats {
    evaluations: u64,
    executions: u64,
    distinct: HashSet<u64>,
    classes: BTreeMap<&'static str, u64>,
    samples: Vec<Value>,
    plain_samples: Vec<Value>,
    excluded_known: u64,
    known_hits: BTreeMap<&'static str, (u64, String)>,
}

impl WorkerStats {
    fn record<C: Serialize>(&mut self, case: &C, res: &CaseResult) {
        self.evaluations += 1;
        self.executions += res.execs.max(1);
        for c in &res.classes {
            *self.classes.entry(c).or_insert(0) += 1;
        }
        if let Outcome::Known { finding, what } = &res.outcome {
            self.excluded_known += 1;
            let e = self.known_hits.entry(finding).or_insert((0, what.clone()));
            e.0 += 1;
        }
        if res.nontrivial {
            let s = serde_json::to_string(case).expect("case serialises");
            if self.distinct.insert(stable_hash(s.as_bytes())) && self.samples.len() < 2 {
                self.samples.push(truncate_sample(serde_json::from_str(&s).unwrap()));
            }
        } else if self.plain_samples.is_empty() {
            self.plain_samples.push(truncate_sample(serde_json::to_value(case).unwrap()));
        }
    }
}

fn merge(
    name: &'static str,
    rule: &'static str,
    stats: Vec<WorkerStats>,
    failure: Option<Failure>,
    exhaustive: bool,
    t0: Instant,
) -> PartReport {
    let mut rep = PartReport {
        name,
        rule,
        evaluations: 0,
        executions: 0,
        distinct: HashSet::new(),
        classes: BTreeMap::new(),
        samples: Vec::new(),
        excluded_known: 0,
        known_hits: BTreeMap::new(),
        failure,
        exhaustive,
        wall_s: 0.0,
    };
    let mut plain = Vec::new();
    for s in stats {
        rep.evaluations += s.evaluations;
        rep.executions += s.executions;
        rep.distinct.extend(s.distinct);
        for (k, v) in s.classes {
            *rep.classes.entry(k).or_insert(0) += v;
        }
        if rep.samples.len() < 4 {
            rep.samples.extend(s.samples.into_iter().take(1));
        }
        if plain.is_empty() {
            plain = s.plain_samples;
        }
        rep.excluded_known += s.excluded_known;
        for (k, (n, w)) in s.known_hits {
            let e = rep.known_hits.entry(k).or_insert((0, w));
            e.0 += n;
        }
    }
    if rep.samples.is_empty() {
        rep.samples = plain;
    }
    rep.wall_s = t0.elapsed().as_secs_f64();
    rep
}

fn guarded<C>(check: &(dyn Fn(&C) -> CaseResult + Sync), case: &C) -> CaseResult {
    match catch(|| check(case)) {
        Ok(r) => r,
        Err(p) => {
            let mut r = CaseResult::new();
            r.fail(format!("panic: {p}"));
            r
        }
    }
}

// ---- the logging dimension ---------------------------------------------------------------------
// Both crates are instrumented with `tracing`; the field expressions of an event or span are only
// evaluated when a subscriber enables the call site. None of the properties may depend on whether
// an application has installed one, so every fourth case is evaluated with a subscriber that enables
// everything (TRACE), formats every field and throws the result away.

/// Enables every call site up to the given verbosity (1 TRACE = everything, 2 DEBUG, 3 INFO, 4 ERROR
/// only): `debug!(x = expr)` is evaluated under a DEBUG subscriber but a `trace!` next to it is not, so
/// code that does work inside either must be seen under both.
struct EverythingOn(std::sync::atomic::AtomicU64, u8);

struct FormatAll(usize);

impl tracing::field::Visit for FormatAll {
    fn record_debug(&mut self, _field: &tracing::field::Field, value: &dyn Debug) {
        use std::fmt::Write;
        let mut s = String::new();
        let _ = write!(s, "{value:?}");
        self.0 += s.len();
    }
}

impl tracing::Subscriber for EverythingOn {
    fn enabled(&self, m: &tracing::Metadata<'_>) -> bool {
        let max = match self.1 {
            1 => tracing::Level::TRACE,
            2 => tracing::Level::DEBUG,
            3 => tracing::Level::INFO,
            _ => tracing::Level::ERROR,
        };
        *m.level() <= max
    }
    fn new_span(&self, attrs: &tracing::span::Attributes<'_>) -> tracing::span::Id {
        attrs.record(&mut FormatAll(0));
        tracing::span::Id::from_u64(self.0.fetch_add(1, Ordering::Relaxed) + 1)
    }
    fn record(&self, _span: &tracing::span::Id, values: &tracing::span::Record<'_>) {
        values.record(&mut FormatAll(0));
    }
    fn record_follows_from(&self, _span: &tracing::span::Id, _follows: &tracing::span::Id) {}
    fn event(&self, event: &tracing::Event<'_>) {
        event.record(&mut FormatAll(0));
    }
    fn enter(&self, _span: &tracing::span::Id) {}
    fn exit(&self, _span: &tracing::span::Id) {}
}

fn traced_suffix(level: u8) -> String {
    format!(" [only with a tracing subscriber installed that enables everything up to {}]", ["", "TRACE", "DEBUG", "INFO", "ERROR"][level.min(4) as usize])
}

// ---- ambient dimensions --------------------------------------------------------------------------
// Circumstances no property statement restricts and that are not part of a case: whether a tracing
// subscriber is installed, and what the sending connection has already been used for (`cmdlab`
// consults `send_history()`). Which combination a case runs under is a function of its index; shrinking
// and replay try all of them, so a replay file needs nothing but the case.

#[derive(Clone, Copy, Debug, PartialEq, Eq)]
pub struct Ambient {
    /// 0: no tracing subscriber; 1-4: one that enables TRACE / DEBUG / INFO / ERROR and everything less verbose
    pub traced: u8,
    /// 0: fresh connection; 1: a long command was sent before; 2: a command list was sent before;
    /// 3: a long command, a list and a short command were sent before; 4 / 5: the connection's first
    /// send_list / send was refused by the transport before it took a byte (blocking: WouldBlock;
    /// async: Pending, future dropped) and the application gave up on it
    pub send_history: u8,
}

const PLAIN: Ambient = Ambient { traced: 0, send_history: 0 };

fn ambient_for(i: u64) -> Ambient {
    let traced = if i % 4 == 3 { [1u8, 2, 1, 3, 1, 2, 1, 4][((i / 4) % 8) as usize] } else { 0 };
    Ambient { traced, send_history: if i % 3 == 2 { 1 + ((i / 3) % 5) as u8 } else { 0 } }
}

fn all_ambients() -> impl Iterator<Item = Ambient> {
    [0u8, 1, 2, 3, 4].into_iter().flat_map(|traced| (0..6u8).map(move |send_history| Ambient { traced, send_history }))
}

thread_local! {
    static SEND_HISTORY: std::cell::Cell<u8> = const { std::cell::Cell::new(0) };
}

/// What the command lab's connections have sent before the command under test (see `Ambient`).
pub fn send_history() -> u8 {
    SEND_HISTORY.with(|c| c.get())
}

fn guarded_in<C>(a: Ambient, check: &(dyn Fn(&C) -> CaseResult + Sync), case: &C) -> CaseResult {
    SEND_HISTORY.with(|c| c.set(a.send_history));
    let mut r = if a.traced != 0 {
        let sub = EverythingOn(std::sync::atomic::AtomicU64::new(0), a.traced);
        tracing::subscriber::with_default(sub, || guarded(check, case))
    } else {
        guarded(check, case)
    };
    SEND_HISTORY.with(|c| c.set(0));
    if let Outcome::Fail(reason) = &mut r.outcome {
        if a.traced != 0 {
            reason.push_str(&traced_suffix(a.traced));
        }
        if a.send_history != 0 {
            reason.push_str(&format!(" [on a connection that had sent other commands before (4, 5: whose first send was refused by the transport before taking a byte): history {}]", a.send_history));
        }
    }
    if a.traced != 0 {
        r.classes.push("evaluated_with_trace_subscriber");
    }
    if a.traced >= 2 {
        r.classes.push("subscriber_below_trace_level");
    }
    if a.send_history != 0 {
        r.classes.push("evaluated_on_used_sender");
    }
    r
}

/// Plain first, then every other ambient combination until one fails: used for shrinking and replay,
/// where the case alone must decide the outcome.
fn guarded_all<C>(check: &(dyn Fn(&C) -> CaseResult + Sync), case: &C) -> CaseResult {
    let r = guarded_in(PLAIN, check, case);
    if matches!(r.outcome, Outcome::Fail(_)) {
        return r;
    }
    for a in all_ambients().filter(|a| *a != PLAIN) {
        let t = guarded_in(a, check, case);
        if matches!(t.outcome, Outcome::Fail(_)) {
            return t;
        }
    }
    r
}

/// `VERIF_CASE_DIVISOR=n`: random parts run 1/n of their cases (used for the second build profile).
pub fn case_divisor() -> u64 {
    std::env::var("VERIF_CASE_DIVISOR").ok().and_then(|v| v.parse().ok()).filter(|v| *v >= 1).unwrap_or(1)
}

/// Random search: `cases` proptest-generated cases split over WORKERS logical workers.
pub struct RandomPart<C> {
    pub name: &'static str,
    pub rule: &'static str,
    pub cases: (u64, u64),
    pub strategy: Box<dyn Fn(Tier) -> BoxedStrategy<C> + Sync + Send>,
    pub check: Box<dyn Fn(&C) -> CaseResult + Sync + Send>,
}

impl<C> Part for RandomPart<C>
where
    C: Serialize + DeserializeOwned + Debug + Clone + Send + 'static,
{
    fn name(&self) -> &'static str {
        self.name
    }

    fn run(&self, cfg: &Cfg) -> PartReport {
        let t0 = Instant::now();
        let total = (cfg.tier.pick(self.cases.0, self.cases.1) / case_divisor()).max(WORKERS as u64);
        let per_worker = total.div_ceil(WORKERS as u64);
        let stop = AtomicBool::new(false);
        let failures: Mutex<Vec<(usize, Failure)>> = Mutex::new(Vec::new());
        let check: &(dyn Fn(&C) -> CaseResult + Sync) = &*self.check;

        let stats: Vec<WorkerStats> = std::thread::scope(|scope| {
            let handles: Vec<_> = (0..WORKERS)
                .map(|w| {
                    let stop = &stop;
                    let failures = &failures;
                    let make_strategy = &self.strategy;
                    let tier = cfg.tier;
                    let name = self.name;
                    let seed = cfg.seed;
                    std::thread::Builder::new()
                        .stack_size(64 << 20)
                        .spawn_scoped(scope, move || {
                            let strategy = make_strategy(tier);
                            let mut runner = runner_for(seed, name, w);
                            let mut st = WorkerStats::default();
                            for i in 0..per_worker {
                                if stop.load(Ordering::Relaxed) {
                                    break;
                                }
                                let mut tree = match strategy.new_tree(&mut runner) {
                                    Ok(t) => t,
                                    Err(_) => continue,
                                };
                                let case = tree.current();
                                let res = guarded_in(ambient_for(i), check, &case);
                                if let Outcome::Fail(reason) = &res.outcome {
                                    stop.store(true, Ordering::Relaxed);
                                    // shrink (proptest's algorithm, bounded)
                                    let mut best = (case.clone(), reason.clone());
                                    let mut iters = 0;
                                    // shrinking is best effort: bounded by iterations AND by wall time
                                    // (the violation is already established; expensive cases, each tried
                                    // under every ambient combination, must not turn a verdict into a
                                    // watchdog timeout)
                                    let shrink_started = Instant::now();
                                    if tree.simplify() {
                                        loop {
                                            iters += 1;
                                            if iters > 4000 || shrink_started.elapsed().as_secs() > 40 {
                                                break;
                                            }
                                            let cur = tree.current();
                                            let r = guarded_all(check, &cur);
                                            if let Outcome::Fail(reason) = r.outcome {
                                                best = (cur, reason);
                                                if !tree.simplify() {
                                                    break;
                                                }
                                            } else if !tree.complicate() {
                                                break;
                                            }
                                        }
                                    }
                                    failures.lock().unwrap().push((
                                        w,
                                        Failure {
                                            case: serde_json::to_value(&best.0).unwrap(),
                                            reason: best.1,
                                        },
                                    ));
                                    break;
                                }
                                st.record(&case, &res);
                            }
                            st
                        })
                        .unwrap()
                })
                .collect();
            handles.into_iter().map(|h| h.join().expect("worker thread")).collect()
        });

        let mut failures = failures.into_inner().unwrap();
        failures.sort_by_key(|(w, _)| *w);
        let failure = failures.into_iter().next().map(|(_, f)| f);
        merge(self.name, self.rule, stats, failure, false, t0)
    }

    fn replay(&self, case: &Value) -> Result<CaseResult, String> {
        let case: C = serde_json::from_value(case.clone()).map_err(|e| e.to_string())?;
        Ok(guarded_all(&*self.check, &case))
    }
}

/// Complete enumeration of a finite space (every worker walks the iterator and takes its slice).
pub struct ExhaustivePart<C> {
    pub name: &'static str,
    pub rule: &'static str,
    pub space: Box<dyn Fn(Tier) -> Box<dyn Iterator<Item = C>> + Sync + Send>,
    pub check: Box<dyn Fn(&C) -> CaseResult + Sync + Send>,
}

impl<C> Part for ExhaustivePart<C>
where
    C: Serialize + DeserializeOwned + Debug + Clone + Send + 'static,
{
    fn name(&self) -> &'static str {
        self.name
    }

    fn run(&self, cfg: &Cfg) -> PartReport {
        let t0 = Instant::now();
        let stop = AtomicBool::new(false);
        let failures: Mutex<Vec<(u64, Failure)>> = Mutex::new(Vec::new());
        let check: &(dyn Fn(&C) -> CaseResult + Sync) = &*self.check;
        let stats: Vec<WorkerStats> = std::thread::scope(|scope| {
            let handles: Vec<_> = (0..WORKERS)
                .map(|w| {
                    let stop = &stop;
                    let failures = &failures;
                    let space = &self.space;
                    let tier = cfg.tier;
                    std::thread::Builder::new()
                        .stack_size(64 << 20)
                        .spawn_scoped(scope, move || {
                            let mut st = WorkerStats::default();
                            for (i, case) in space(tier).enumerate() {
                                if i % WORKERS != w {
                                    continue;
                                }
                                if stop.load(Ordering::Relaxed) {
                                    break;
                                }
                                let res = if (i / WORKERS) % 4 == 3 { guarded_all(check, &case) } else { guarded(check, &case) };
                                if let Outcome::Fail(reason) = &res.outcome {
                                    stop.store(true, Ordering::Relaxed);
                                    failures.lock().unwrap().push((
                                        i as u64,
                                        Failure {
                                            case: serde_json::to_value(&case).unwrap(),
                                            reason: reason.clone(),
                                        },
                                    ));
                                    break;
                                }
                                st.record(&case, &res);
                            }
                            st
                        })
                        .unwrap()
                })
                .collect();
            handles.into_iter().map(|h| h.join().expect("worker thread")).collect()
        });
        let mut failures = failures.into_inner().unwrap();
        failures.sort_by_key(|(i, _)| *i);
        let failed = !failures.is_empty();
        let failure = failures.into_iter().next().map(|(_, f)| f);
        merge(self.name, self.rule, stats, failure, !failed, t0)
    }

    fn replay(&self, case: &Value) -> Result<CaseResult, String> {
        let case: C = serde_json::from_value(case.clone()).map_err(|e| e.to_string())?;
        Ok(guarded_all(&*self.check, &case))
    }
}

// ---------------------------------------------------------------------------------------------
// properties, known findings, evidence

pub struct Property {
    pub id: &'static str,
    pub level: &'static str,
    pub parts: Vec<Box<dyn Part>>,
    pub assumptions: Vec<&'static str>,
    /// Self-tests of the trusted base (oracle ports); a failure here is exit 2, not a verdict.
    pub selftest: Option<fn() -> Result<(), String>>,
}

#[derive(Deserialize, Debug, Clone)]
pub struct Finding {
    pub id: String,
    pub property: String,
    pub status: String,
    #[serde(default)]
    pub commit: Option<String>,
    pub what: String,
    pub witness: String,
}

#[derive(Deserialize, Debug)]
struct FindingsFile {
    findings: Vec<Finding>,
}

#[derive(Serialize, Deserialize, Debug)]
pub struct ReplayFile {
    pub property: String,
    pub part: String,
    pub case: Value,
    #[serde(default)]
    pub reason: String,
    #[serde(default)]
    pub seed: u64,
    #[serde(default)]
    pub tier: String,
}

pub fn verif_root() -> PathBuf {
    std::env::var_os("VERIF_ROOT").map(PathBuf::from).unwrap_or_else(|| PathBuf::from("/verif"))
}

fn load_findings(property: &str) -> Vec<Finding> {
    let path = verif_root().join("known_findings.json");
    let Ok(text) = std::fs::read_to_string(&path) else {
        return Vec::new();
    };
    let file: FindingsFile = match serde_json::from_str(&text) {
        Ok(f) => f,
        Err(e) => {
            eprintln!("cannot parse {}: {e}", path.display());
            std::process::exit(2);
        }
    };
    file.findings.into_iter().filter(|f| f.property == property).collect()
}

fn write_replay(prop: &Property, part: &str, f: &Failure, cfg: &Cfg) -> PathBuf {
    let dir = verif_root().join("replays").join(prop.id);
    let _ = std::fs::create_dir_all(&dir);
    let rf = ReplayFile {
        property: prop.id.to_string(),
        part: part.to_string(),
        case: f.case.clone(),
        reason: f.reason.clone(),
        seed: cfg.seed,
        tier: cfg.tier.name().to_string(),
    };
    let text = serde_json::to_string_pretty(&rf).unwrap();
    let path = dir.join(format!("{:016x}.json", stable_hash(text.as_bytes())));
    std::fs::write(&path, text).expect("write replay file");
    path
}

pub static WATCHDOG_DEADLINE_S: AtomicU64 = AtomicU64::new(0);

pub fn start_watchdog(seconds: u64) {
    WATCHDOG_DEADLINE_S.store(seconds, Ordering::Relaxed);
    std::thread::spawn(move || {
        std::thread::sleep(std::time::Duration::from_secs(seconds));
        println!("WATCHDOG: run exceeded {seconds} s wall clock; inconclusive");
        std::process::exit(2);
    });
}

fn replay_one(prop: &Property, rf: &ReplayFile) -> Result<CaseResult, String> {
    let part = prop
        .parts
        .iter()
        .find(|p| p.name() == rf.part)
        .ok_or_else(|| format!("no part {:?} in property {}", rf.part, prop.id))?;
    part.replay(&rf.case)
}

/// `check <ID> <tier> --replay FILE`
pub fn run_replay(prop: &Property, path: &Path) -> i32 {
    let text = match std::fs::read_to_string(path) {
        Ok(t) => t,
        Err(e) => {
            eprintln!("cannot read {}: {e}", path.display());
            return 2;
        }
    };
    let rf: ReplayFile = match serde_json::from_str(&text) {
        Ok(r) => r,
        Err(e) => {
            eprintln!("cannot parse {}: {e}", path.display());
            return 2;
        }
    };
    if rf.property != prop.id {
        eprintln!("replay file is for property {}, not {}", rf.property, prop.id);
        return 2;
    }
    match replay_one(prop, &rf) {
        Err(e) => {
            eprintln!("replay error: {e}");
            2
        }
        Ok(res) => match res.outcome {
            Outcome::Pass => {
                println!("REPLAY property={} part={} result=pass", prop.id, rf.part);
                0
            }
            Outcome::Known { finding, what } => {
                println!("KNOWN-FINDING: property={} {} {}", prop.id, finding, what);
                0
            }
            Outcome::Fail(reason) => {
                println!("REPLAY property={} part={} result=FAIL: {}", prop.id, rf.part, reason);
                println!("VIOLATION property={} replay={}", prop.id, path.display());
                1
            }
        },
    }
}

pub fn run_property(prop: &Property, cfg: &Cfg) -> i32 {
    let t0 = Instant::now();
    if let Some(st) = prop.selftest {
        if let Err(e) = st() {
            println!("SELFTEST-FAILED property={} {}", prop.id, e);
            return 2;
        }
    }

    let mut violations: Vec<(String, PathBuf)> = Vec::new();
    let mut known_lines: Vec<String> = Vec::new();
    let mut known_open_ids: Vec<String> = Vec::new();

    // 1. witnesses of known findings
    for f in load_findings(prop.id) {
        let wpath = verif_root().join(&f.witness);
        let rf: ReplayFile = match std::fs::read_to_string(&wpath)
            .map_err(|e| e.to_string())
            .and_then(|t| serde_json::from_str(&t).map_err(|e| e.to_string()))
        {
            Ok(r) => r,
            Err(e) => {
                println!("cannot load witness {} of {}: {e}", wpath.display(), f.id);
                return 2;
            }
        };
        let res = match replay_one(prop, &rf) {
            Ok(r) => r,
            Err(e) => {
                println!("cannot replay witness of {}: {e}", f.id);
                return 2;
            }
        };
        match (f.status.as_str(), &res.outcome) {
            ("open", Outcome::Known { finding, what }) if *finding == f.id => {
                known_lines.push(format!("KNOWN-FINDING: property={} {} {}", prop.id, f.id, what));
                known_open_ids.push(f.id.clone());
            }
            ("open", Outcome::Pass) => {
                println!(
                    "note: known finding {} no longer reproduces on its witness (property {})",
                    f.id, prop.id
                );
            }
            ("open", other) => {
                println!("witness of open finding {} fails differently: {:?}", f.id, other);
                violations.push((f.id.clone(), wpath));
            }
            ("fixed", Outcome::Pass) => {}
            ("fixed", other) => {
                println!("fixed finding {} is back: {:?}", f.id, other);
                violations.push((f.id.clone(), wpath));
            }
            (s, _) => {
                println!("unknown finding status {s:?}");
                return 2;
            }
        }
    }

    // 1b. committed regression inputs: shrunk counterexamples that once exposed a (seeded or real)
    // defect; on a tree where the property holds every one of them passes
    let mut regression_replays = 0u64;
    let regdir = verif_root().join("regressions").join(prop.id);
    if let Ok(rd) = std::fs::read_dir(&regdir) {
        let mut files: Vec<PathBuf> = rd.filter_map(|e| e.ok()).map(|e| e.path()).filter(|p| p.extension().is_some_and(|x| x == "json")).collect();
        files.sort();
        for path in files {
            let rf: ReplayFile = match std::fs::read_to_string(&path)
                .map_err(|e| e.to_string())
                .and_then(|t| serde_json::from_str(&t).map_err(|e| e.to_string()))
            {
                Ok(r) => r,
                Err(e) => {
                    println!("cannot load regression input {}: {e}", path.display());
                    return 2;
                }
            };
            match replay_one(prop, &rf) {
                Err(e) => {
                    println!("cannot replay regression input {}: {e}", path.display());
                    return 2;
                }
                Ok(res) => {
                    regression_replays += 1;
                    if let Outcome::Fail(reason) = res.outcome {
                        println!("FAIL property={} regression input {} reason: {}", prop.id, path.display(), reason);
                        violations.push(("regression".into(), path));
                    }
                }
            }
        }
    }

    // 2. search
    let mut reports = Vec::new();
    for part in &prop.parts {
        let rep = part.run(cfg);
        if let Some(f) = &rep.failure {
            let path = write_replay(prop, rep.name, f, cfg);
            println!("FAIL property={} part={} reason: {}", prop.id, rep.name, f.reason);
            violations.push((rep.name.to_string(), path));
        }
        for (finding, (n, what)) in &rep.known_hits {
            if !known_open_ids.iter().any(|k| k == finding) {
                known_open_ids.push(finding.to_string());
                known_lines.push(format!("KNOWN-FINDING: property={} {} {}", prop.id, finding, what));
            }
            let _ = n;
        }
        reports.push(rep);
    }

    // 3. evidence
    let evaluations: u64 = reports.iter().map(|r| r.evaluations).sum();
    let mut distinct: HashSet<(usize, u64)> = HashSet::new();
    for (i, r) in reports.iter().enumerate() {
        distinct.extend(r.distinct.iter().map(|h| (i, *h)));
    }
    let mut samples = Vec::new();
    for r in &reports {
        for s in r.samples.iter().take(2) {
            samples.push(json!({ "part": r.name, "case": s }));
        }
    }
    let rule = reports
        .iter()
        .map(|r| format!("[{}] {}", r.name, r.rule))
        .collect::<Vec<_>>()
        .join(" || ");
    let parts_json: Vec<Value> = reports
        .iter()
        .map(|r| {
            json!({
                "part": r.name,
                "evaluations": r.evaluations,
                "executions": r.executions,
                "distinct_nontrivial": r.distinct.len(),
                "classes": r.classes,
                "excluded_known": r.excluded_known,
                "exhaustive": r.exhaustive,
                "wall_s": (r.wall_s * 1000.0).round() / 1000.0,
            })
        })
        .collect();
    let all_exhaustive = !reports.is_empty() && reports.iter().all(|r| r.exhaustive);
    let evidence = json!({
        "property_id": prop.id,
        "tier": cfg.tier.name(),
        "seed": cfg.seed,
        "level": prop.level,
        "coverage": {
            "evaluations": evaluations,
            "executions": reports.iter().map(|r| r.executions).sum::<u64>(),
            "distinct_nontrivial": distinct.len(),
            "rule": rule,
            "samples": samples,
            "exhaustive": all_exhaustive,
            "parts": parts_json,
            "excluded_known": reports.iter().map(|r| r.excluded_known).sum::<u64>(),
            "known_findings_seen": known_open_ids,
            "feature_chrono": cfg!(feature = "chrono"),
            "build_profile": if cfg!(debug_assertions) { "release + debug assertions + overflow checks" } else { "release-plain (no debug assertions, wrapping arithmetic)" },
            "case_divisor": case_divisor(),
            "regression_inputs_replayed": regression_replays,
        },
        "assumptions": prop.assumptions,
        "wall_s": (t0.elapsed().as_secs_f64() * 1000.0).round() / 1000.0,
        "violations": violations.len(),
    });
    let mut evidence = evidence;
    if let Some(path) = std::env::var_os("VERIF_CHRONO_EVIDENCE") {
        if let Ok(text) = std::fs::read_to_string(&path) {
            if let Ok(v) = serde_json::from_str::<Value>(&text) {
                evidence["coverage"]["chrono_build"] = json!({
                    "note": "the same check built with mpd_client's chrono feature, run just before this one",
                    "evaluations": v["coverage"]["evaluations"],
                    "executions": v["coverage"]["executions"],
                    "distinct_nontrivial": v["coverage"]["distinct_nontrivial"],
                    "violations": v["violations"],
                    "wall_s": v["wall_s"],
                });
            }
        }
    }
    if let Some(path) = std::env::var_os("VERIF_ALT_EVIDENCE") {
        if let Ok(text) = std::fs::read_to_string(&path) {
            if let Ok(v) = serde_json::from_str::<Value>(&text) {
                evidence["coverage"]["plain_profile_build"] = json!({
                    "note": "the same check built without debug assertions and overflow checks (profile release-plain), random parts at 1/3 of the case count, run just before this one",
                    "evaluations": v["coverage"]["evaluations"],
                    "executions": v["coverage"]["executions"],
                    "distinct_nontrivial": v["coverage"]["distinct_nontrivial"],
                    "violations": v["violations"],
                    "wall_s": v["wall_s"],
                });
            }
        }
    }
    if let Ok(text) = std::env::var("VERIF_FUZZ_STATS") {
        if let Ok(v) = serde_json::from_str::<Value>(&text) {
            evidence["coverage"]["libfuzzer_campaign"] = v;
        }
    }
    let evdir = verif_root().join("evidence");
    let _ = std::fs::create_dir_all(&evdir);
    let suffix = if cfg!(feature = "chrono") {
        ".chrono"
    } else if std::env::var_os("VERIF_ALT_RUN").is_some() {
        ".alt"
    } else {
        ""
    };
    let evpath = evdir.join(format!("{}{}.json", prop.id, suffix));
    if let Err(e) = std::fs::write(&evpath, serde_json::to_string_pretty(&evidence).unwrap()) {
        println!("cannot write evidence {}: {e}", evpath.display());
        return 2;
    }

    for l in &known_lines {
        println!("{l}");
    }
    println!(
        "SUMMARY property={} tier={} seed={} evaluations={} distinct_nontrivial={} excluded_known={} violations={} wall_s={:.1}",
        prop.id,
        cfg.tier.name(),
        cfg.seed,
        evaluations,
        distinct.len(),
        reports.iter().map(|r| r.excluded_known).sum::<u64>(),
        violations.len(),
        t0.elapsed().as_secs_f64()
    );
    for r in &reports {
        println!(
            "  part={} evaluations={} executions={} distinct_nontrivial={} exhaustive={} classes={:?}",
            r.name,
            r.evaluations,
            r.executions,
            r.distinct.len(),
            r.exhaustive,
            r.classes
        );
    }
    if violations.is_empty() {
        0
    } else {
        for (_, path) in &violations {
            println!("VIOLATION property={} replay={}", prop.id, path.display());
        }
        1
    }
}

// ---------------------------------------------------------------------------------------------
// byte strings that serialise readably and losslessly

#[derive(Clone, PartialEq, Eq, Hash, Default)]
pub struct B(pub Vec<u8>);

pub fn escape_bytes(b: &[u8]) -> String {
    let mut s = String::with_capacity(b.len() + 8);
    for &c in b {
        match c {
            b'\\' => s.push_str("\\\\"),
            b'\n' => s.push_str("\\n"),
            b'\r' => s.push_str("\\r"),
            b'\t' => s.push_str("\\t"),
            0x20..=0x7e => s.push(c as char),
            _ => s.push_str(&format!("\\x{c:02x}")),
        }
    }
    s
}

pub fn unescape_bytes(s: &str) -> Result<Vec<u8>, String> {
    let b = s.as_bytes();
    let mut out = Vec::with_capacity(b.len());
    let mut i = 0;
    while i < b.len() {
        if b[i] == b'\\' {
            let n = *b.get(i + 1).ok_or("dangling backslash")?;
            match n {
                b'\\' => out.push(b'\\'),
                b'n' => out.push(b'\n'),
                b'r' => out.push(b'\r'),
                b't' => out.push(b'\t'),
                b'x' => {
                    let h = s.get(i + 2..i + 4).ok_or("short \\x")?;
                    out.push(u8::from_str_radix(h, 16).map_err(|e| e.to_string())?);
                    i += 2;
                }
                _ => return Err(format!("bad escape \\{}", n as char)),
            }
            i += 2;
        } else {
            out.push(b[i]);
            i += 1;
        }
    }
    Ok(out)
}

impl Debug for B {
    fn fmt(&self, f: &mut std::fmt::Formatter<'_>) -> std::fmt::Result {
        write!(f, "b\"{}\"", escape_bytes(&self.0))
    }
}

impl Serialize for B {
    fn serialize<S: serde::Serializer>(&self, s: S) -> Result<S::Ok, S::Error> {
        s.serialize_str(&escape_bytes(&self.0))
    }
}

impl<'de> Deserialize<'de> for B {
    fn deserialize<D: serde::Deserializer<'de>>(d: D) -> Result<Self, D::Error> {
        let s = String::deserialize(d)?;
        unescape_bytes(&s).map(B).map_err(serde::de::Error::custom)
    }
}

impl From<Vec<u8>> for B {
    fn from(v: Vec<u8>) -> Self {
        B(v)
    }
}

impl From<&[u8]> for B {
    fn from(v: &[u8]) -> Self {
        B(v.to_vec())
    }
}

impl From<&str> for B {
    fn from(v: &str) -> Self {
        B(v.as_bytes().to_vec())
    }
}

impl std::ops::Deref for B {
    type Target = [u8];
    fn deref(&self) -> &[u8] {
        &self.0
    }
}
