#![no_main]
use libfuzzer_sys::fuzz_target;

fuzz_target!(|data: &[u8]| {
    static HOOK: std::sync::Once = std::sync::Once::new();
    HOOK.call_once(vlib::core::install_panic_hook);
    if let Err(e) = vlib::fuzzops::sim_target(data) {
        eprintln!("ORACLE-FAILURE: {e}");
        std::process::abort();
    }
});
