#!/usr/bin/env python3
"""tools/seed_matrix_par.py <workers> <seed-id>...

Time saver for the sensitivity matrix, used for the two oldest waves only: runs the quick check of each
seeded change's own property in <workers> scratch environments in parallel. Each environment is
/tmp/mx/<i>/{repo,verif}: a git worktree of /repo at HEAD with the patch applied, and a copy of /verif
whose path dependencies point at that worktree (own build directory, seeded from /verif/target).
Commands and sources are the same as in tools/seed_matrix.py; only the location differs. Results are
merged into seeded/<id>/meta.json (checks_run.quick.<own id>, with "where": "scratch worktree") - run
tools/seed_matrix.py afterwards (with no ids it only regenerates MATRIX.md for what it does not run...
use --table) to rewrite MATRIX.md. Everything under /tmp/mx is removed at the end.
"""
import json, os, subprocess, sys, threading, queue, shutil

ROOT = "/verif"
N = int(sys.argv[1])
ids = sys.argv[2:]
q = queue.Queue()
for s in ids:
    q.put(s)
results = {}
lock = threading.Lock()


def sh(cmd, cwd=None, env=None):
    r = subprocess.run(cmd, shell=True, cwd=cwd, capture_output=True, text=True, env=env)
    return r.returncode, r.stdout + r.stderr


def setup(i):
    base = f"/tmp/mx/{i}"
    os.makedirs(base, exist_ok=True)
    sh(f"git -C /repo worktree remove --force {base}/repo")
    rc, out = sh(f"git -C /repo worktree add --detach {base}/repo HEAD")
    assert rc == 0, out
    sh(f"rsync -a --delete --exclude target --exclude .git --exclude fuzz/corpus-work --exclude fuzz/artifacts --exclude evidence --exclude replays {ROOT}/ {base}/verif/")
    os.makedirs(f"{base}/verif/evidence", exist_ok=True)
    sh(f"sed -i 's#\"/repo/#\"{base}/repo/#g' {base}/verif/harness/vcheck/Cargo.toml {base}/verif/harness/vcheck_chrono/Cargo.toml")
    # seed the build directory with the dependencies already built for /verif
    os.makedirs(f"{base}/verif/target", exist_ok=True)
    # only the main profile is copied (the second one is built on demand, for changes the main run misses): each copy
    # then takes ~20 GB instead of ~35 GB
    sh(f"rsync -a --exclude 'fuzz-*' --exclude 'release-plain' --exclude 'x86_64-*' --exclude '*.log' {ROOT}/target/ {base}/verif/target/")
    return base


def worker(i):
    base = setup(i)
    while True:
        try:
            sid = q.get_nowait()
        except queue.Empty:
            return
        pid = sid[:3]
        d = f"{ROOT}/seeded/{sid}"
        sh("git checkout -q -- .", f"{base}/repo")
        rc, out = sh(f"git apply {d}/patch.diff", f"{base}/repo")
        if rc != 0:
            with lock:
                results[sid] = {"exit": 2, "first_failure": "patch does not apply: " + out[:200]}
            continue
        rc, out = sh(f"VERIF_SKIP_ALT=1 ./check {pid} quick", f"{base}/verif")
        if rc == 0:
            rc, out = sh(f"./check {pid} quick", f"{base}/verif")
        fails = [l for l in out.splitlines() if l.startswith("FAIL ")]
        # prefer what the search itself found over the replay of a regression input saved earlier
        first = next((l for l in fails if " part=" in l), fails[0] if fails else "")
        by_search = any(" part=" in l for l in fails)
        if rc == 1:
            for l in out.splitlines():
                if l.startswith("VIOLATION ") and "/replays/" in l:
                    src = l.split("replay=")[1].strip()
                    dst = f"{ROOT}/regressions/{pid}"
                    os.makedirs(dst, exist_ok=True)
                    # (cases that sleep for real are not kept: regression inputs are replayed under every ambient combination)
                    if os.path.exists(src) and os.path.getsize(src) < 200_000 and 'pause_ms' not in open(src).read():
                        shutil.copy(src, f"{dst}/{sid}.json")
                    break
        sh("git checkout -q -- .", f"{base}/repo")
        with lock:
            results[sid] = {"exit": rc, "first_failure": first[:300].replace(base, ""), "found_by_search": by_search, "where": "scratch worktree of /repo at HEAD (tools/seed_matrix_par.py)"}
            print(sid, pid, rc, first[:140], flush=True)


threads = [threading.Thread(target=worker, args=(i,)) for i in range(N)]
for t in threads:
    t.start()
for t in threads:
    t.join()
for sid, res in results.items():
    p = f"{ROOT}/seeded/{sid}/meta.json"
    meta = json.load(open(p))
    meta.setdefault("checks_run", {}).setdefault("quick", {})[sid[:3]] = res
    meta["caught_by"] = sorted({c for t in meta["checks_run"].values() for c, v in t.items() if v["exit"] == 1})
    json.dump(meta, open(p, "w"), indent=1)
for i in range(N):
    sh(f"git -C /repo worktree remove --force /tmp/mx/{i}/repo")
shutil.rmtree("/tmp/mx", ignore_errors=True)
print("done", len(results))
