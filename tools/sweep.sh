#!/bin/bash
# tools/sweep.sh <tier> <seed>...: every check on the unchanged tree for several seeds; prints one line per run
TIER="$1"; shift
cd "$(dirname "$0")/.."
for s in "$@"; do
  for p in C01 C02 C03 C04 C05 C06 C07 C08 C09 C10 C11 C12 C13 C14 C15 C16 C17 C18 C19 C20; do
    t0=$(date +%s)
    out=$(VERIF_SEED=$s ./check $p $TIER 2>&1); rc=$?
    echo "seed=$s $p rc=$rc $(( $(date +%s) - t0 ))s $(echo "$out" | grep -E '^(VIOLATION|FAIL|WATCHDOG|BUILD|\[panic\])' | head -3 | cut -c1-300 | tr '\n' '|')"
  done
done
