#!/usr/bin/env python3
"""Runs the registered quick (or thorough) checks against every seeded change in /verif/seeded and
records which checks catch which change in seeded/<id>/meta.json and seeded/MATRIX.md.
usage: tools/seed_matrix.py [quick|thorough] [--own] [id ...]
  --own: run only the check of the change's own property (results of other checks recorded earlier are kept)"""
import json, os, subprocess, sys
ROOT = os.path.dirname(os.path.dirname(os.path.abspath(__file__)))
tier = sys.argv[1] if len(sys.argv) > 1 else "quick"
only = [a for a in sys.argv[2:] if not a.startswith("--")]
OWN_ONLY = "--own" in sys.argv
# which checks to run per seeded change: its own property plus neighbours sharing the code
EXTRA = {"C01": ["C05", "C13"], "C02": ["C03", "C09", "C10"], "C03": ["C01", "C02", "C09"], "C04": ["C19", "C01"], "C05": ["C01"], "C08": ["C10"],
         "C09": ["C02", "C03"], "C10": ["C08", "C02"], "C11": ["C20"], "C12": ["C09"], "C13": ["C05", "C01"], "C14": ["C12"], "C16": ["C12"],
         "C17": [], "C18": ["C09"], "C19": ["C04"], "C20": ["C11"], "C06": ["C15"], "C07": ["C06"], "C15": []}
def sh(cmd, cwd=None):
    r = subprocess.run(cmd, shell=True, cwd=cwd, capture_output=True, text=True)
    return r.returncode, r.stdout + r.stderr
rows = []
for sid in sorted(os.listdir(f"{ROOT}/seeded")):
    d = f"{ROOT}/seeded/{sid}"
    if not os.path.isdir(d) or sid.startswith("_") or (only and sid not in only):
        continue
    pid = sid[:3]
    rc, out = sh("git status --porcelain --untracked-files=no", "/repo")
    assert out.strip() == "", "/repo not clean"
    rc, out = sh(f"git apply {d}/patch.diff", "/repo")
    assert rc == 0, out
    caught = {}
    try:
        for cid in [pid] + ([] if OWN_ONLY else EXTRA.get(pid, [])):
            # first without the second build profile (faster); if that run stays silent, the full command
            rc, out = sh(f"VERIF_SKIP_ALT=1 ./check {cid} {tier}", ROOT)
            if rc == 0:
                rc, out = sh(f"./check {cid} {tier}", ROOT)
            fails = [l for l in out.splitlines() if l.startswith("FAIL ")]
            # prefer what the search itself found over the replay of a regression input saved earlier
            first = next((l for l in fails if " part=" in l), fails[0] if fails else "")
            by_search = any(" part=" in l for l in fails)
            caught[cid] = {"exit": rc, "first_failure": first[:300], "found_by_search": by_search}
            # keep the shrunk counterexample as a committed regression input of that property
            if rc == 1:
                for l in out.splitlines():
                    if l.startswith("VIOLATION ") and "/replays/" in l:
                        src = l.split("replay=")[1].strip()
                        dst = f"{ROOT}/regressions/{cid}"
                        os.makedirs(dst, exist_ok=True)
                        # (cases that sleep for real are not kept: regression inputs are replayed under every ambient combination)
                        if os.path.exists(src) and os.path.getsize(src) < 200_000 and 'pause_ms' not in open(src).read():
                            import shutil
                            shutil.copy(src, f"{dst}/{sid}.json")
                        break
            print(sid, cid, rc, first[:160], flush=True)
    finally:
        sh("git checkout -- .", "/repo")
    meta = json.load(open(f"{d}/meta.json"))
    if OWN_ONLY:
        meta.setdefault("checks_run", {}).setdefault(tier, {}).update(caught)
    else:
        meta.setdefault("checks_run", {})[tier] = caught
    meta["caught_by"] = sorted({c for t in meta["checks_run"].values() for c, v in t.items() if v["exit"] == 1})
    json.dump(meta, open(f"{d}/meta.json", "w"), indent=1)
    rows.append((sid, caught))
# matrix
lines = ["# Seeded changes x checks (exit 1 = VIOLATION reported, 0 = missed, 2 = inconclusive)", "",
         "Own-property column: `./check <own id> quick` with the change applied (waves 3-5: applied to /repo itself by tools/seed_matrix.py;",
         "waves 1-2: in scratch worktrees by tools/seed_matrix_par.py, same sources and commands). 'search' = a part of the check found it in this run;",
         "'regression input' = only the replay of the counterexample saved by an earlier matrix run failed (the search did not hit it again in this run).", "",
         "| seeded change | own property check | reported through | other checks that also report it | note |", "|---|---|---|---|---|"]
tot = {"caught": 0, "missed": 0, "other": 0}
for sid in sorted(os.listdir(f"{ROOT}/seeded")):
    p = f"{ROOT}/seeded/{sid}/meta.json"
    if not os.path.exists(p) or sid.startswith("_"): continue
    m = json.load(open(p)); pid = sid[:3]
    runs = m.get("checks_run", {})
    own = "; ".join(f"{t}: exit {v[pid]['exit']}" for t, v in runs.items() if pid in v)
    q = runs.get("quick", {}).get(pid, {})
    through = "" if q.get("exit") != 1 else ("search" if q.get("found_by_search", " part=" in q.get("first_failure", "")) else "regression input")
    others = sorted({c for t in runs.values() for c, v in t.items() if c != pid and v["exit"] == 1})
    note = m.get("known_miss", "")[:90] or m.get("matrix_note", "")
    tot["caught" if q.get("exit") == 1 else "missed" if q.get("exit") == 0 else "other"] += 1
    lines.append(f"| {sid} | {own} | {through} | {', '.join(others)} | {note} |")
lines += ["", f"Totals (quick tier, own property): reported {tot['caught']}, not reported {tot['missed']}, inconclusive/not run {tot['other']}."]
open(f"{ROOT}/seeded/MATRIX.md", "w").write("\n".join(lines) + "\n")
