#!/bin/bash
# tools/revert_fix_test.sh <commit> <tier> <ID>...: undo one fix commit in /repo's working tree, run checks, restore.
set -u
C="$1"; TIER="$2"; shift 2
cd /repo || exit 2
if [ -n "$(git status --porcelain --untracked-files=no)" ]; then echo "/repo not clean"; exit 2; fi
git diff "$C^" "$C" | git apply -R || { echo "cannot reverse-apply $C"; exit 2; }
trap 'git -C /repo checkout -- . ' EXIT
for ID in "$@"; do
  out=$(cd /verif && ./check "$ID" "$TIER" 2>&1); rc=$?
  echo "== revert $C -> $ID rc=$rc"
  echo "$out" | grep -E '^(VIOLATION|FAIL|BUILD|WATCHDOG|SELFTEST|witness|fixed finding)' | cut -c1-400
done
