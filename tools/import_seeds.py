#!/usr/bin/env python3
"""Copies validated second-wave seeded changes from /tmp/seed2 into /verif/seeded (ids CNNw2-k)."""
import json, os, shutil, re, subprocess
res = json.load(open('/tmp/seedcheck2/results.json'))
head = subprocess.check_output(["git","-C","/repo","rev-parse","--short","HEAD"],text=True).strip()
for key, v in sorted(res.items()):
    ok = v.get("patch_applies") and v.get("suite_passes_with_patch") and v.get("demo_fails_with_patch") and v.get("demo_passes_clean")
    out = f"/verif/seeded/{key}"
    if not ok:
        print("skip", key, v); continue
    if os.path.exists(out): continue
    d = v["dir"]
    os.makedirs(out, exist_ok=True)
    for f in os.listdir(d):
        if f.endswith('.rs') or f in ('README.md', 'demo_path.txt', 'patch.diff', 'patch.orig-old-head.diff'):
            shutil.copy(f"{d}/{f}", f"{out}/{f}")
    meta = {
        "id": key, "breaks_property": key[:3], "wave": 2,
        "source": "independent sub-agent given only the property record, one-paragraph summaries of the first-wave changes to avoid, and a scratch worktree of /repo; asked for changes a randomized tester is unlikely to hit",
        "ported": os.path.exists(f"{d}/patch.orig-old-head.diff") and "written against the HEAD before fix 19fe0aa; ported by hand to HEAD (same change, same site), original kept as patch.orig-old-head.diff",
        "files_touched": sorted(set(re.findall(r"^\+\+\+ b/(\S+)", open(f"{d}/patch.diff").read(), re.M))),
        "needs_to_manifest": "see README.md (section on trigger conditions)",
        "demo": {"place_at": v["demo_path"], "run": v["demo_cmd"]},
        "confirmed_by_me": {"where": f"scratch worktree /tmp/seedcheck2/wt at {head} (removed afterwards)", "patch_applies_to_HEAD": True,
                            "existing_suite_with_patch": v["suite_summary"] + " (cargo test --workspace --offline)", "suite_passes_with_patch": True,
                            "demo_passes_without_patch": True, "demo_fails_with_patch": True},
    }
    json.dump(meta, open(f"{out}/meta.json", "w"), indent=1)
    print("imported", key)
