#!/bin/bash
# tools/try_patch.sh <patch.diff> <tier> <ID> [ID...]  — apply a seeded change to /repo, run checks, undo.
set -u
PATCH="$1"; TIER="$2"; shift 2
cd /repo || exit 2
if [ -n "$(git status --porcelain --untracked-files=no)" ]; then echo "/repo not clean"; exit 2; fi
if ! git apply "$PATCH"; then echo "patch does not apply"; exit 2; fi
trap 'git -C /repo checkout -- . ' EXIT
for ID in "$@"; do
  out=$(cd /verif && ./check "$ID" "$TIER" 2>&1); rc=$?
  echo "== $ID rc=$rc"
  echo "$out" | grep -E '^(VIOLATION|FAIL|KNOWN|BUILD|WATCHDOG|SELFTEST|witness|fixed finding)' | cut -c1-600
done
