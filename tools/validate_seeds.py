#!/usr/bin/env python3
"""tools/validate_seeds.py <src-root> <wave> [IDs...]

Confirms sub-agent deliverables (<src-root>/<CNN>/out/<k>/{patch.diff,*.rs,demo_path.txt,README.md}) in a
scratch worktree of /repo at HEAD: the patch applies, the existing suite passes with it, the demonstration
fails with it and passes without it. Confirmed changes are copied to /verif/seeded/<CNN>w<wave>-<k>.
The worktree and its build output are removed at the end. /repo itself is never modified.
"""
import json, os, re, shutil, subprocess, sys

src, wave = sys.argv[1], int(sys.argv[2])
only = set(sys.argv[3:])
WT = f"/tmp/seedcheck{wave}/wt"
ENV = dict(os.environ, CARGO_NET_OFFLINE="true", CARGO_TARGET_DIR=f"/tmp/seedcheck{wave}/target")
SOURCE = {
    8: "independent sub-agent (20-minute budget) given only the property record, the list of everything the tester is known to vary after seven waves, and a scratch worktree of /repo; asked what is NOT in that list",
    7: "independent sub-agent given only the property record, the list of everything the tester is known to vary after six waves (incl. threads, tracing levels, application chatter, objects used between construction steps, odd execution contexts, distinct-name counts), and a scratch worktree of /repo; asked what is NOT in that list",
    6: "independent sub-agent given only the property record, the list of everything the tester is known to vary after five waves (build profiles, second connection, wall clock, error kinds, ...), and a scratch worktree of /repo; asked what is NOT in that list",
    2: "independent sub-agent given only the property record, one-paragraph summaries of the first-wave changes to avoid, and a scratch worktree of /repo; asked for changes a randomized tester is unlikely to hit",
    3: "independent sub-agent given only the property record, a generic description of a strong randomized tester (all segmentations, sizes to several hundred KiB, adversarial alphabets, deterministic schedules) and a scratch worktree of /repo; asked for changes that need a conjunction of conditions to show",
}


def sh(cmd, cwd=WT, **kw):
    return subprocess.run(cmd, cwd=cwd, env=ENV, shell=True, text=True, capture_output=True, **kw)


def suite():
    r = sh("cargo test --workspace --offline 2>&1")
    passed = sum(int(x) for x in re.findall(r"test result: ok\. (\d+) passed", r.stdout))
    failed = "test result: FAILED" in r.stdout or r.returncode != 0
    return (not failed), f"{passed} passed"


head = subprocess.check_output(["git", "-C", "/repo", "rev-parse", "--short", "HEAD"], text=True).strip()
os.makedirs(f"/tmp/seedcheck{wave}", exist_ok=True)
subprocess.run(["git", "-C", "/repo", "worktree", "remove", "--force", WT], capture_output=True)
subprocess.check_call(["git", "-C", "/repo", "worktree", "add", "--detach", WT, "HEAD"], stdout=subprocess.DEVNULL, stderr=subprocess.DEVNULL)
results = {}
try:
    for cid in sorted(os.listdir(src)):
        if only and cid not in only:
            continue
        outd = f"{src}/{cid}/out"
        if not os.path.isdir(outd):
            continue
        for k in sorted(os.listdir(outd)):
            d = f"{outd}/{k}"
            key = f"{cid}w{wave}-{k}"
            if not os.path.exists(f"{d}/patch.diff"):
                continue
            v = {"dir": d}
            results[key] = v
            sh("git checkout -q -- . && git clean -fdq")
            demo_path = open(f"{d}/demo_path.txt").read().split()[0].strip() if os.path.exists(f"{d}/demo_path.txt") else None
            demos = [f for f in os.listdir(d) if f.endswith(".rs")]
            if not demo_path or not demos:
                v["error"] = "no demo"
                continue
            demo_file = os.path.basename(demo_path) if os.path.basename(demo_path) in demos else demos[0]
            v["demo_path"] = demo_path
            pkg = demo_path.split("/")[0]
            test = os.path.splitext(os.path.basename(demo_path))[0]
            v["demo_cmd"] = f"cargo test --offline -p {pkg} --test {test}"
            lines = [l.strip() for l in open(f"{d}/demo_path.txt").read().splitlines() if l.strip()]
            if len(lines) > 1 and lines[1].startswith("cargo test"):
                v["demo_cmd"] = lines[1]
            # clean + demo
            os.makedirs(os.path.dirname(f"{WT}/{demo_path}"), exist_ok=True)
            shutil.copy(f"{d}/{demo_file}", f"{WT}/{demo_path}")
            r = sh(v["demo_cmd"] + " 2>&1")
            v["demo_passes_clean"] = r.returncode == 0
            os.remove(f"{WT}/{demo_path}")
            # patch
            r = sh(f"git apply {d}/patch.diff")
            v["patch_applies"] = r.returncode == 0
            if not v["patch_applies"]:
                v["error"] = r.stderr[-400:]
                continue
            ok, summ = suite()
            v["suite_passes_with_patch"], v["suite_summary"] = ok, summ
            shutil.copy(f"{d}/{demo_file}", f"{WT}/{demo_path}")
            r = sh(v["demo_cmd"] + " 2>&1")
            v["demo_fails_with_patch"] = r.returncode != 0 and "test result: FAILED" in r.stdout
            print(key, {a: b for a, b in v.items() if a != "dir"}, flush=True)
finally:
    subprocess.run(["git", "-C", "/repo", "worktree", "remove", "--force", WT], capture_output=True)
    shutil.rmtree(f"/tmp/seedcheck{wave}", ignore_errors=True)

for key, v in sorted(results.items()):
    ok = v.get("patch_applies") and v.get("suite_passes_with_patch") and v.get("demo_fails_with_patch") and v.get("demo_passes_clean")
    out = f"/verif/seeded/{key}"
    if not ok:
        print("NOT CONFIRMED", key, {a: b for a, b in v.items() if a != "dir"})
        continue
    if os.path.exists(out):
        print("exists", key)
        continue
    d = v["dir"]
    os.makedirs(out, exist_ok=True)
    for f in os.listdir(d):
        if f.endswith(".rs") or f in ("README.md", "demo_path.txt", "patch.diff", "patch.orig-old-head.diff"):
            shutil.copy(f"{d}/{f}", f"{out}/{f}")
    meta = {
        "id": key, "breaks_property": key[:3], "wave": wave,
        "source": SOURCE.get(wave, "independent sub-agent"),
        "ported": os.path.exists(f"{d}/patch.orig-old-head.diff") and "ported by hand to HEAD (same change, same site), original kept as patch.orig-old-head.diff",
        "files_touched": sorted(set(re.findall(r"^\+\+\+ b/(\S+)", open(f"{d}/patch.diff").read(), re.M))),
        "needs_to_manifest": "see README.md (section on trigger conditions)",
        "demo": {"place_at": v["demo_path"], "run": v["demo_cmd"]},
        "confirmed_by_me": {"where": f"scratch worktree at {head} (removed afterwards)", "patch_applies_to_HEAD": True,
                            "existing_suite_with_patch": v["suite_summary"] + " (cargo test --workspace --offline)", "suite_passes_with_patch": True,
                            "demo_passes_without_patch": True, "demo_fails_with_patch": True},
    }
    json.dump(meta, open(f"{out}/meta.json", "w"), indent=1)
    print("imported", key)
