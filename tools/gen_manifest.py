#!/usr/bin/env python3
"""Regenerates /verif/MANIFEST.json from the table below (keeps it valid and in one place)."""
import json, os, sys

ROOT = os.path.dirname(os.path.dirname(os.path.abspath(__file__)))

# id -> (level, technique, text, note, engine)
CHECKS = {
 "C01": ("exploration", "stateful PBT over a deterministic session simulator (generated schedules, virtual clock, seeded select!)",
         "Generated histories of 1-4 callers, idle notifications, timer advances around the 100 ms window, held/released reply bytes and cancellations are run against the real Client over a simulated MPD; every non-cancelled request must resolve to exactly the abstract reply the simulated server recorded for its token, per-caller order is checked on the server transcript; plus every sequence of <= 4 (thorough 5) atomic steps over a 13-letter alphabet. Explores, never proves.",
         "simulated MPD (idle rules, reply table) is the judge; schedules are those of a current-thread tokio runtime with paused clock and seeded select!; tokio channels/timers trusted", "sim"),
 "C02": ("exploration", "metamorphic + differential PBT (segmentation invariance, blocking = async) and libFuzzer target with the same oracle",
         "Generated streams (well-formed, truncated, corrupted, beyond 4 KiB and its doublings) are fed under whole/one-byte/random/every-single-cut/buffer-edge segmentations to both connection flavours; outcome sequences must be identical. Small streams get every cut point, all streams get cuts at fixed distances past every response boundary.",
         "outcome compared through public accessors; greeting always ends a read (a server sends nothing before it has read a command)", "streamlab"),
 "C03": ("exploration", "round-trip PBT against an independent encoder written from the protocol grammar",
         "Abstract responses (keyword-mimicking values, binary payloads with protocol look-alikes, list/ACK shapes, several per connection) are encoded by the harness and must decode to exactly the abstract value, then clean EOF.",
         "harness encoder is the reference for 'well-formed'; keys stay inside the documented alphabet", "streamlab"),
 "C04": ("exploration", "stateful PBT over the session simulator with a history invariant",
         "Histories biased to server-side changes (multi-name replies, unknown names, replies cut inside/between lines, changes in the re-idle window, the noidle race); the event sequence must equal the concatenation of all 'changed:' lines the simulated server wrote (nothing is forgiven: finding F-B is fixed in /repo and its witness is replayed on every run); plus every sequence of <= 4 atomic steps over a 13-letter alphabet and a slow-consumer part with up to 10 000 pending events.",
         "as C01", "sim"),
 "C05": ("exploration", "stateful PBT: a simulated MPD judges every line the client writes",
         "Same histories as C01/C04 (fault-free, with partial writes); the simulated server flags any command other than noidle while idling, any request while earlier reply bytes are unread, a first line other than idle, a missing re-idle after the 100 ms window at quiescent points, and a session that stalls (a request never answered); plus the systematic step sequences of C01.",
         "server model implements MPD's documented idle rules; as C01", "sim"),
 "C06": ("exploration", "round-trip PBT + small-scope exhaustive enumeration through a port of MPD's Tokenizer",
         "Every string of length <= 4 (thorough 5) over one representative per character class, at four argument positions, plus random argument lists sent by send/send_list, must be read back by the MPD tokenizer port as exactly the name and arguments. Open finding F-C is forgiven only when the wire token is exactly the recorded wrong rendering.",
         "vlib::mpdtok is a faithful port of util/Tokenizer.cxx + line handling (self-test vectors run before every check)", "cmdlab"),
 "C07": ("exploration", "stateful PBT (add_argument histories) with a validity predicate and a twin-command rollback model",
         "Arbitrary and near-miss names, every Argument type incl. a raw-bytes renderer with LF at any position; rejected arguments must leave the command ==/hash/bytes-identical, accepted ones must land as in a twin that never saw the rejected ones; every command is one line and list blocks have exactly begin, n lines, end.",
         "MPD recognises list framing by exact comparison of the right-stripped line", "cmdlab"),
 "C08": ("fault_enumeration", "fault-injection PBT over the session simulator (generated fault kind x byte offset x queue depth; thorough enumerates offsets)",
         "One generated fault (clean close, EOF at any byte of any reply, malformed line, persistent read/write error, last handle dropped) per history with 0-4 requests queued and 0-3 issued later; resolution, closure, event-stream and surfacing invariants E1-E7 are checked under a virtual-time bound; a second part moves the EOF / read error to every byte offset of the server's output and the write error to every write index of generated scripts.",
         "as C01; hang detection through virtual time", "sim"),
 "C09": ("exploration", "PBT + coverage-guided fuzzing (libFuzzer) with a reference decoder as oracle",
         "Random bytes, mutated encoder output and a dictionary of numeric/UTF-8/NUL edge lines under all segmentations: no panic, bounded reads, outcome equal to an independent non-streaming reference decoder, two further receive calls must return.",
         "reference decoder vlib::refdec written from the grammar; ambiguous unterminated tails accept either terminal error", "streamlab"),
 "C10": ("fault_enumeration", "cut-point enumeration over generated well-formed streams (exhaustive per stream up to 2 KiB)",
         "Every cut position of generated well-formed streams x 3 segmentations x 2 flavours: responses wholly before the cut are delivered, then Ok(None) iff the cut is a recorded boundary else UnexpectedEof; greeting prefixes likewise.",
         "boundaries recorded by the harness encoder", "streamlab"),
 "C11": ("exploration", "round-trip PBT through ports of MPD's Tokenizer and SongFilter::ParseExpression against a mirror tree",
         "Filter trees built only through the public API (depth <= 4, all operators, shorthands, negate/!/and) with values over all special classes are rendered inside find/count/list commands, tokenised and parsed by the MPD ports and compared with the harness's mirror tree up to AND associativity. Open finding F-I forgiven only on its exact signature.",
         "vlib::mpdfilter is a faithful port of song/Filter.cxx (self-test vectors)", "cmdlab"),
 "C12": ("exploration", "totality PBT (catch_unwind over every decoder and accessor) + libFuzzer target, both feature configurations",
         "Wire streams from a vocabulary of every field name any decoder reads, numeric/range/timestamp edge values, 0-9 frames, pushed through the real parser and then through every predefined command's response(), every accessor/iterator, and typed lists of arity 1-8 / Vec with count mismatches; built with and without chrono.",
         "none beyond the parser producing the frames", "typedlab"),
 "C13": ("exploration", "PBT on list framing bytes + simulator runs with self-identifying probe commands",
         "Raw lists of 1-40 commands by every construction path must be written as nothing/bare line/one ok_begin..end block; typed tuples (arity 1-8) and Vecs of probe commands and fixed mixes of real commands must pair result i with frame i against the simulated server.",
         "as C05/C06", "cmdlab+sim"),
 "C14": ("exploration", "round-trip PBT against an abstract listing encoded as MPD prints it",
         "Abstract listings (0-30 entries, songs with attribute/tag lines in any order, repeated tags, directory/playlist entries with dates anywhere, Time vs duration) decoded by Queue/QueueRange/CurrentSong/Find/GetPlaylist/ListAllIn must equal the abstract listing field by field.",
         "harness listing encoder follows the protocol reference; durations compared at stated tolerance", "typedlab"),
 "C15": ("exploration", "table-driven PBT: per-command expectation rows over boundary grids, tokens interpreted semantically",
         "One row per constructor/builder path of every predefined command x boundary and random parameters; the line is tokenised by the MPD port and compared with an expectation written from the protocol reference (ranges as position sets, numbers numerically, durations within 0.5 ms).",
         "expectation table written from the MPD protocol reference; classes owned by C06's open finding excluded and counted", "cmdlab"),
 "C16": ("exploration", "round-trip PBT against abstract replies + out-of-domain variants",
         "Abstract status/stats/count/list/listplaylists/sticker/channels/messages/tagtypes/update/replay-gain/addid replies (optional-field subsets, orders, boundary numbers, all spellings) must decode field by field; one-field-out-of-domain variants must yield Err.",
         "harness reply encoder follows the protocol reference", "typedlab"),
 "C17": ("exploration", "stateful PBT over the session simulator with a picture server and request-log invariant",
         "Picture sizes around multiples of the chunk limit and up to 64 KiB, chunk limits 1-16384, both sources, MIME presence, every fallback/err path, concurrent callers and notifications; result must equal the picture byte-exactly and the request log must show strictly increasing offsets on one command.",
         "picture server follows the protocol reference (type: only on readpicture)", "sim"),
 "C18": ("exploration", "PBT with a reference greeting classifier + simulator write-log invariants for the password path",
         "Valid and invalid greeting classes under every segmentation for blocking/async/Client connect; password runs against the simulator with every server verdict cut anywhere: password first, no idle before acceptance, ACK => IncorrectPassword and nothing further written.",
         "reference classifier written from the greeting grammar", "streamlab+sim"),
 "C19": ("exploration", "model-based PBT (Vec model in lock-step)",
         "Frames/responses from the real parser (duplicate keys, case-differing keys, binary) under operation sequences mixing find/get/take_binary/iteration from both ends/clone/into_iter; every return value compared with a Vec-based model; size hints checked at every step.",
         "model is the specification of 'ordered multimap'", "streamlab"),
 "C20": ("exploration", "exhaustive enumeration of the pair space + PBT over candidate strings against independent name tables",
         "All ordered pairs over named variants / catch-alls in every letter case (tags: ~190 values; subsystems: ~47) for ==, hash, cmp, map/set lookups; random candidate strings for Tag::try_from; subsystem parsing observed through client events.",
         "harness name tables written from MPD's tag table / idle docs / Picard mapping", "cmdlab"),
}

# dimensions added after the seeded-change waves (DESIGN.md section 6d), appended to the texts above
EXTRA = {
 "C01": " Also: an unrelated second connection on the same thread, wall-clock time passing during Advance steps (thorough: 5.3 s), io::ErrorKind of injected errors varied; long sessions (30-160 race scenarios on one connection), greeting versions, vectored/stalled writes, events handle dropped; every 4th case under a tracing subscriber (all properties); fz_sim libFuzzer campaign in the thorough tier.",
 "C02": " Also: one line of 2^k+d bytes (4 KiB-4 MiB) with read boundaries next to its end; payloads tiled from protocol look-alikes.",
 "C03": " Also: receives interrupted/cancelled and resumed while a second connection on the same thread does the same; responses of 65 535-1 000 000 lines in one piece; key families sharing first/last byte and length.",
 "C04": " Also: long sessions with recurring key-rich replies, events receiver not polled (up to 10 000 pending), mixed-width unknown subsystem names; fz_sim campaign in the thorough tier.",
 "C05": " Also: sessions opened with the password handshake, wall-clock time, write stalls, long sessions, and (beyond the stated quantifier, declared as such) client-side faults incl. a transient Interrupted write; fz_sim campaign in the thorough tier.",
 "C08": " Also: 8 io::ErrorKinds for injected errors, writes that return Ok(0), E8 (a caller told that the connection failed => client reports closed), giant replies (1.25-80 MiB line), events handle held but unpolled with up to 2100 pending notifications; fz_sim campaign in the thorough tier.",
 "C06": " Also: DEL as a twelfth character class, strings dense in escapable characters with lengths 2^k+-1, odd strings (\"/\", \".\", \"+0\", ...); every third case on a connection that has already sent other commands; fz_cmd campaign (16 processes) in the thorough tier.",
 "C07": " Also: arguments of 2^k+d letters up to 4 MiB (cumulative line lengths past 1, 2, 4, 8 MiB) ending in LF/NUL; hashes compared under three hashers.",
 "C11": " Also: stacks of 2^k+-1 negations up to 1025; known tag names in any letter case fold to the canonical tag on both sides.",
 "C13": " Also: lists cloned and clone_from'd into lists of other lengths; protocol-level part with list replies whose leading frames are empty under interrupted/cancelled receives.",
 "C15": " Also: every row x 40 odd strings (\"/\", \"//\", \".\", blanks, \"+0\", \"null\", BOM ...).",
 "C18": " Also: the segmentation applies to the greeting bytes themselves, network read sizes (536..1500..65535), greeting lengths that are exact multiples of them, versions of 2^k+-1 bytes up to 4 MiB.",
 "C19": " Also: nth/nth_back steps and whole-iterator adaptors (last, count, fold, rfold, skip, step_by, rev) on all four iterator types; frames obtained on connections with a history.",
 "C20": " Also: hash law under three hashers (SipHash, word-wise, call-sensitive); 3.2*10^8 (thorough 4*10^9) pseudo-random unknown names of known-name lengths must map to the catch-all.",
 "C10": " Also: receives interrupted by a transient WouldBlock / dropped while pending and called again; responses of 70 000-1 000 000 lines cut at and around their boundaries.",
 "C12": " Also: every decoded value and error is formatted with {:?} and {:#?}; frames obtained on connections with a history.",
 "C14": " Attribute names with the case of one letter flipped occur as tag names. Each case additionally varies the connection's history (key cache, buffer growth) and the parameters of the decoding command object.",
 "C16": " Grouping tags are also passed as Tag::Other(<canonical name>). Each case additionally varies the connection's history; sticker/channel names and values include multi-byte characters.",
 "C17": " Also: transfers of 66 000 (thorough 300 000) requests, earlier callers that gave up mid-transfer, greeting versions, chunk lengths varying mid-transfer, errors on continuation requests, up to 1100 chunks.",
}

# sixth wave (DESIGN.md section 6g)
WAVE6 = {
 "C01": " Since wave 6: in 12 % of the cases the callers' futures are polled by a foreign executor on another OS thread; tracing subscribers at TRACE/DEBUG/INFO/ERROR level.",
 "C02": " Since wave 6: also the interrupted flavours (transient WouldBlock before every read / pending receive futures dropped) in which the application sends commands from MPD's whole vocabulary (binarylimit, noidle, send_list, ...) after every response and between attempts, and the connection is now and then handed to another thread.",
 "C04": " Since wave 6: 4100-66 000 distinct field names received before the session's first notification; foreign-thread callers; tracing levels.",
 "C05": " Since wave 6: foreign-thread callers; tracing levels.",
 "C06": " Since wave 6: borrowed arguments handed over as sub-slices starting 1-8 bytes into a larger string; plain strings with exactly one special character near either end; part odd_contexts (commands built inside thread-local destructors, re-entrantly from a renderer, during unwinding, after a contained renderer panic must accept the same arguments and send the same bytes); connections whose first send was refused by the transport.",
 "C07": " Since wave 6: part odd_contexts (see C06): LF/NUL are rejected wherever the command is built.",
 "C08": " Since wave 6: foreign-thread callers; tracing levels.",
 "C09": " Since wave 6: part many_names (70 000 and 1.1 M, thorough 4.3 M, distinct field names in one response; a receive that does not return within 240 s is reported as inconclusive, exit 2).",
 "C10": " Since wave 6: two further receive() calls after the end of the stream must not turn an UnexpectedEof into a clean end or a response; 70 000 (thorough 1.2 M) distinct field names under all five ways of calling receive, cut between two lines; the application talks between attempts.",
 "C11": " Since wave 6: sub-filters that are rendered by reference, formatted, cloned and compared before construction goes on (FSpec::Used); filter() called twice on List / CountGrouped / Count::group_by (documented overwrite).",
 "C13": " Since wave 6: typed lists whose reply takes 4 s - 1 h of virtual time with the next list right behind; connections whose first send_list/send was refused at byte 0 (blocking: WouldBlock; async: Pending, future dropped).",
 "C15": " Since wave 6: rows in which the builder object is rendered / formatted / cloned between construction steps (Find, List, Count, CountGrouped, Add, AlbumArt, StickerFind, Update); TagTypes with the complete tag table (rotated, reversed, minus one, plus a duplicate, one entry as Tag::Other) - reference requests of more than 15 arguments are tokenised without MPD's argument-count limit.",
 "C18": " Since wave 6: part slow_greeting (REAL time passes between greeting segments: quick 30-150 ms, thorough up to 61 s); complete unasked lines arriving in the same read as the greeting must not be taken for the password verdict.",
 "C19": " Since wave 6: two fields() iterators alive at once, advanced alternately with find/fields_len/is_empty in between.",
 "C20": " Since wave 6: vectors, slices, arrays, tuples, Options and Boxes of equal tags/subsystems must be equal and hash alike (Hash::hash_slice), HashSet<Vec<_>> lookups; Rust variant identifiers (queue, StoredPlaylist, AlbumArtist ...) as candidate names.",
}
for k, v in WAVE6.items():
    EXTRA[k] = EXTRA.get(k, "") + v

# seventh wave (DESIGN.md section 6h)
WAVE7 = {
 "C01": " Since wave 7: requests issued in different script steps must arrive in step order whichever clones carried them (one caller, several clones); the foreign executor hands a new waker to every poll and ignores wake-ups through older ones; Advance steps of hours and days.",
 "C03": " Since wave 7: one value of 8, 16, 32 MiB (thorough 64, 128 MiB); interrupted receive attempts made from a destructor while the thread unwinds.",
 "C05": " Since wave 7: silence of 1 h - 50 days of virtual time; poll_shutdown that never completes or fails.",
 "C08": " Since wave 7: Script.shutdown_behaviour (the transport's poll_shutdown completes / never completes / fails).",
 "C12": " Since wave 7: all pairs of timestamps of a decoded listing through cmp/partial_cmp/==/sort/dedup/max, time edges with shortened and missing zone designators; List::values()/into_iter() through every adaptor, bulk consumer and ExactSizeIterator::len.",
 "C14": " Since wave 7: timestamps with non-UTC zone designators (under chrono the wall-clock reading and the offset of chrono_datetime() must be the ones written); every third variant is decoded after 16 FAILING typed conversions on the same thread.",
 "C16": " Since wave 7: List::values()/into_iter() must agree with the sent values under every adaptor (nth_back, rev, rfold, try_rfold, len, enumerate/zip/skip/take from the back); playlist timestamps with offsets (chrono: offset and wall clock preserved) compared pairwise; failing typed conversions first on the thread.",
 "C17": " Since wave 7: 14 URI shapes incl. URI schemes (http, file, nfs, smb, cdda, '://'); pictures starting with PNG/JPEG/GIF/WEBP signatures under 8 MIME strings incl. mismatching ones.",
 "C18": " The quick tier also makes two connects with a 31 s real-time pause inside the greeting (thorough: 61, 121 s).",
 "C19": " Since wave 7: fold/rfold/for_each/try_fold/try_rfold compared by order (also on partly consumed iterators), ExactSizeIterator::len at every stage and the adaptors built on it, FusedIterator behaviour, for all four protocol-layer iterators.",
}
for k, v in WAVE7.items():
    EXTRA[k] = EXTRA.get(k, "") + v

# eighth wave (DESIGN.md section 6i)
WAVE8 = {
 "C11": " Since wave 8: the filter-carrying command also travels inside command lists (1 case in 4); values with runs of blanks and tabs.",
 "C13": " Since wave 8: part empty_list_on_ended_connection (the empty typed Vec issued after the connection ended in every way, exhaustive over 160 combinations, must still yield an empty result).",
 "C19": " Since wave 8: every frame is received twice on one connection and lookups (find / get) are also made with keys that are prefix / suffix / empty slices of the twin frame's interned field names; get/find with a key whose as_ref() panics on its n-th call (contained) must leave the frame as it was.",
}
for k, v in WAVE8.items():
    EXTRA[k] = EXTRA.get(k, "") + v

BUILT = sys.argv[1].split(",") if len(sys.argv) > 1 else []

checks = []
na = []
for pid, (level, tech, text, note, engine) in CHECKS.items():
    if pid in BUILT:
        text = text + EXTRA.get(pid, "") + " Every check also runs under a second build profile (release-plain: no debug assertions, wrapping arithmetic) before the main run; its coverage is embedded in the evidence."
        checks.append({
            "property_id": pid,
            "quick_cmd": f"./check {pid} quick",
            "thorough_cmd": f"./check {pid} thorough",
            "evidence_file": f"/verif/evidence/{pid}.json",
            "replay_cmd_template": f"./check {pid} quick --replay {{path}}",
            "engine": engine,
            "level_claimed": {"category": level, "text": text, "design_ref": f"DESIGN.md section 4, {pid}"},
            "level_note": note,
            "technique": tech,
        })
    else:
        na.append({"property_id": pid, "reason": "check not built yet in this round (planned: " + tech + "); not a statement that the technique cannot apply"})

manifest = {
    "version": 1,
    "setup_cmd": "cd /verif/harness && export CARGO_NET_OFFLINE=true CARGO_TARGET_DIR=/verif/target && cargo build --release -p vcheck && cargo build --release -p vcheck_chrono",
    "hooks": {
        "guard": "mpd_client_verif",
        "enable": "no hooks are needed: every observation point is public API; checks build /repo unmodified (path dependencies of /verif/harness, RUSTFLAGS --cfg tokio_unstable affects only tokio)",
        "baseline_off_cmd": "cd /repo && cargo test --workspace --no-fail-fast --offline",
        "source_commits": [],
        "add_only": True,
    },
    "engines": [
        {"name": "cmdlab", "path": "/verif/harness/vcheck/src/cmdlab.rs", "serves_properties": ["C06", "C07", "C11", "C13", "C15", "C20"], "kind_free_text": "proptest generators + ports of MPD's tokenizer and filter parser as oracles"},
        {"name": "streamlab", "path": "/verif/harness/vcheck/src/wire.rs", "serves_properties": ["C02", "C03", "C09", "C10", "C18", "C19"], "kind_free_text": "independent wire encoder, reference decoder, segmenting transports"},
        {"name": "typedlab", "path": "/verif/harness/vcheck/src/props/c12.rs", "serves_properties": ["C12", "C14", "C16"], "kind_free_text": "abstract replies/listings encoded and pushed through the real parser into typed decoders"},
        {"name": "sim", "path": "/verif/harness/vcheck/src/sim.rs", "serves_properties": ["C01", "C04", "C05", "C08", "C13", "C17", "C18"], "kind_free_text": "deterministic session simulator: simulated MPD, harness-owned transport, virtual clock, seeded select!"},
        {"name": "fuzz", "path": "/verif/fuzz", "serves_properties": ["C02", "C09", "C12", "C06", "C11", "C01", "C04", "C05", "C08"], "kind_free_text": "cargo-fuzz/libFuzzer targets carrying the same oracles (thorough tier)"},
    ],
    "checks": checks,
    "not_applicable": na,
    "notes": "All checks: ./check <ID> <quick|thorough> [--replay FILE]; VERIF_SEED seeds every random choice. Known findings: /verif/known_findings.json (open ones print KNOWN-FINDING and exit 0). Fix commits in /repo are listed there with status fixed.",
}
json.dump(manifest, open(os.path.join(ROOT, "MANIFEST.json"), "w"), indent=1)
print("claimed:", [c["property_id"] for c in checks])
