#!/bin/bash
# tools/shadow.sh <patch.diff|-> <tier> <ID> [ID...]
# Development aid only (never registered in MANIFEST.json): runs the checks of the CURRENT /verif sources
# against a scratch worktree of /repo (/tmp/shadow/repo) with the given seeded change applied, so that
# sensitivity can be tried while /repo itself is in use by a long sweep. "-" = no patch.
# /tmp/shadow/verif is a copy of /verif whose path dependencies point at the scratch worktree.
# Remove everything with: tools/shadow.sh --clean
set -u
S=/tmp/shadow
if [ "${1:-}" = "--clean" ]; then git -C /repo worktree remove --force $S/repo 2>/dev/null; rm -rf $S; exit 0; fi
PATCH="$1"; TIER="$2"; shift 2
mkdir -p $S
if [ ! -d $S/repo ]; then git -C /repo worktree add --detach $S/repo HEAD >/dev/null 2>&1 || exit 2; fi
git -C $S/repo checkout -q --detach "$(git -C /repo rev-parse HEAD)" || exit 2
git -C $S/repo checkout -q -- . ; git -C $S/repo clean -fdq
rsync -a --delete --exclude target --exclude .git --exclude 'fuzz/corpus-work' --exclude 'fuzz/artifacts' --exclude evidence /verif/ $S/verif/
mkdir -p $S/verif/evidence
sed -i "s#\"/repo/#\"$S/repo/#g" $S/verif/harness/vcheck/Cargo.toml $S/verif/harness/vcheck_chrono/Cargo.toml $S/verif/fuzz/Cargo.toml 2>/dev/null
if [ "$PATCH" != "-" ]; then git -C $S/repo apply "$PATCH" || { echo "patch does not apply"; exit 2; }; fi
for ID in "$@"; do
  out=$(cd $S/verif && ./check "$ID" "$TIER" 2>&1); rc=$?
  echo "== $ID rc=$rc"
  echo "$out" | grep -E '^(VIOLATION|FAIL|KNOWN|BUILD|WATCHDOG|SELFTEST|witness|fixed finding|SUMMARY)' | cut -c1-700
done
git -C $S/repo checkout -q -- .
