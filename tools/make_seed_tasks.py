#!/usr/bin/env python3
"""tools/make_seed_tasks.py <out-root> <ID> [ID...]

Writes <out-root>/<ID>/TASK.md (the complete brief for one seeding sub-agent: property text, what to
produce, what earlier agents already produced) and creates the scratch worktree <out-root>/<ID>/wt.
The sub-agent sees nothing from /verif except this file.
"""
import json, os, subprocess, sys, glob, re

root = sys.argv[1]
ids = sys.argv[2:]
props = {json.loads(l)["id"]: json.loads(l) for l in open("/verif/properties.jsonl")}

TEMPLATE = """# Task: seed a subtle property-breaking change (mutation) into a Rust library

You work ONLY inside the git worktree `{wt}` (a checkout of the Rust workspace
elomatreb/mpd_client: crates `mpd_protocol` - nom-based streaming MPD response parser, command
encoder, blocking + async connection - and `mpd_client` - tokio client running an idle/noidle
loop, typed commands and responses). The sandbox has NO network: always pass `--offline` to cargo
(`cargo test --workspace --offline`). Do not read or write anything under /repo, /verif, /root/.vp or
/root/.claude, and do not touch other directories under {root}. Do not commit anything and never
run `git stash` (the .git directory is shared with other worktrees).

## The property

**{id} - {title}**

Statement: {statement}

Quantified over: {quant}

Code it is anchored in: {files}
Mechanisms meant to make it hold:
{mechs}

## What to produce

Produce TWO independent, realistic changes ("mutations") to the library source of
mpd_protocol and/or mpd_client (src/ files only, never the existing tests) such that, for each one:

1. the workspace still compiles and the ENTIRE existing test suite still passes
   (`cargo test --workspace --offline`, 101 unit tests + doctests, none edited);
2. the property above is violated for some input / schedule / history / fault;
3. the violation is VERY HARD to find. Assume the adversary is a very strong randomized tester that
   already varies ALL of the following, so a change that hides behind any one of them WILL be found:
   inputs from the full grammar with boundary values; sizes on a logarithmic scale (lines and
   arguments up to 4 MiB, replies up to 80 MiB, responses of a million lines, 2000 pending events,
   900 requests per connection); every read segmentation incl. network read sizes (536..1500..65535)
   and reads aligned with line ends; receives interrupted by transient errors or dropped futures and
   retried; short, vectored, stalled and transiently failing writes; fault injection at every byte;
   thousands of deterministic interleavings of callers / notifications / timers; long-lived
   connections (key caches filled with hundreds of names, buffers grown to MiBs, counters in the
   hundreds); command objects built through every constructor/builder path, cloned and clone_from'd,
   sent twice and after other commands; iterators driven through next/next_back/nth/skip/step_by/
   last/count/fold; hash laws under several hashers; with and without a tracing subscriber; all cargo
   features; greeting versions old and new; application handles dropped or held without polling;
   alphabets with every ASCII control incl. DEL, quotes, backslashes, multi-byte and case-mapping
   oddities, strings dense in escapable characters, odd strings like "/" "." "+0" "null";
   10^8..10^9 random names against table lookups; BOTH build profiles (with debug assertions and
   overflow checks, and a plain release build without either); a second, unrelated connection driven
   on the same thread and in the same process (so thread-local or static state is exposed); real
   wall-clock time passing (up to ~5 s per step) next to tokio's paused clock; every io::ErrorKind
   for injected read/write errors and writes returning Ok(0); callers that give up (drop their
   future) at any point; counters beyond 16 bits (300 000 requests / chunks); every decoded value
   also formatted with {{:?}} and {{:#?}}; Tag::Other built from canonical and re-cased names; password
   and no-password handshakes; NOT-stacks of 1000+ negations; clones and clone_from of everything;
   tracing subscribers at every max level (TRACE, DEBUG, INFO, ERROR); connections and clients used
   from other OS threads than the one that created them, callers polled by a foreign (non-tokio)
   executor; the application sending arbitrary commands (any MPD command name, e.g. binarylimit,
   noidle, password) between interrupted or successive receives; a first send that the transport
   refused; receive() called again after any error; values (filters, command builders) rendered,
   formatted, cloned and compared between any two construction steps; commands built inside
   thread-local destructors, re-entrantly from a renderer, during unwinding, after a contained panic;
   borrowed arguments that are unaligned sub-slices; several iterators over one frame alive at once;
   hashes of slices / tuples / options of values; 10^5..10^6 DISTINCT field names per response and
   per connection; peers that send unasked lines together with the greeting; real-time pauses of up
   to a minute between greeting segments; replies delayed by up to an hour of virtual time; one caller
   using several client handles and one handle used for many requests; request futures re-polled
   with fresh wakers (stale wakers ignored) and spuriously; transports whose poll_shutdown stalls or
   fails; hours to 50 days of silence; receive() called from destructors during unwinding; single
   lines of 8-128 MiB; typed conversions that fail just before the one under test on the same thread;
   decoded timestamps compared pairwise and with non-UTC offsets (chrono: offset preserved); every
   iterator (protocol and typed) through fold/rfold/try_fold/try_rfold/for_each order checks, len()
   at every stage, enumerate/zip/skip/take from the back, fused behaviour; URIs with schemes and
   pictures carrying PNG/JPEG/GIF/WEBP signatures with mismatching MIME types; pending events.next()
   futures dropped and re-created.
   Your change must still slip through: think about what is NOT in that list. Make it depend on a
   conjunction of individually unremarkable conditions that the list does not cross with each other,
   on state that only an unusual but legitimate sequence of public-API calls reaches, on an
   environment aspect the list does not mention, or on two cooperating code sites. Do NOT hide it
   behind a cryptographic-strength coincidence (64-bit hash collisions and the like): it must be
   something a thoughtful human reviewer could trigger on purpose with a short test. It must be a
   genuine violation of the statement above (not of some stronger property).
4. you provide a demonstration: a new integration test file (e.g. `mpd_client/tests/seed_demo_1.rs`
   or `mpd_protocol/tests/seed_demo_1.rs`, using only the public API and dev-dependencies already
   in Cargo.toml such as tokio, tokio-test, assert_matches) which FAILS with the change applied and
   PASSES on the unchanged code. Verify both directions yourself.

The two changes must differ in kind from each other AND from these changes that others have already
produced for this property (do not repeat them or close variants of them):
{earlier}

## Deliverables (exact layout)

Create `{out}/1/` and `{out}/2/`, each containing:
- `patch.diff` - `git diff` of the library source change only (relative to the worktree HEAD; must
  apply with `git apply` on a clean checkout; do NOT include the demo file in it);
- the demonstration file(s), plus `demo_path.txt` containing, on separate lines, the path where the
  demo must be placed relative to the worktree root (e.g. `mpd_client/tests/seed_demo_1.rs`) and the
  exact command to run it (e.g. `cargo test --offline -p mpd_client --test seed_demo_1`);
- `README.md` (at most ~60 lines) - what the change is, why it breaks the property, what exactly is
  needed for the violation to manifest, and the commands you ran with their observed results.

Working style: keep every single message and every single tool call SMALL (write files with several
small Write/Edit calls rather than one huge one; never paste long code into your prose; demo tests at
most ~120 lines).

When done, restore the worktree to a clean state (`git checkout -- . && git clean -fd -e target`),
and reply with a summary of at most 25 lines.
"""

for pid in ids:
    p = props[pid]
    d = f"{root}/{pid}"
    os.makedirs(d, exist_ok=True)
    wt = f"{d}/wt"
    if not os.path.isdir(wt):
        subprocess.check_call(["git", "-C", "/repo", "worktree", "add", "--detach", wt, "HEAD"], stdout=subprocess.DEVNULL, stderr=subprocess.DEVNULL)
    earlier = []
    for sd in sorted(glob.glob(f"/verif/seeded/{pid}*")):
        rd = f"{sd}/README.md"
        if os.path.exists(rd):
            txt = " ".join(open(rd).read().split())
            earlier.append("  - " + txt[:230])
    q = p.get("quantifier", {})
    text = TEMPLATE.format(
        wt=wt, root=root, out=f"{d}/out", id=pid, title=p["title"], statement=p["statement"],
        quant=q.get("text", ""), files=", ".join(p["anchors"]["files"]),
        mechs="\n".join(f"  - {m['name']} ({m['where']})" for m in p["anchors"].get("mechanism", [])),
        earlier="\n".join(earlier) or "  (none)",
    )
    open(f"{d}/TASK.md", "w").write(text)
    print("wrote", f"{d}/TASK.md")
