#!/usr/bin/env python3
"""tools/make_seed_tasks.py <out-root> <ID> [ID...]

Writes <out-root>/<ID>/TASK.md (the complete brief for one seeding sub-agent: property text, what to
produce, what earlier agents already produced) and creates the scratch worktree <out-root>/<ID>/wt.
The sub-agent sees nothing from /verif except this file.
"""
import json, os, subprocess, sys, glob, re

root = sys.argv[1]
ids = sys.argv[2:]
props = {json.loads(l)["id"]: json.loads(l) for l in open("/verif/properties.jsonl")}

TEMPLATE = """# Task: seed a subtle property-breaking change (mutation) into a Rust library

You work ONLY inside the git worktree `{wt}` (a checkout of the Rust workspace
elomatreb/mpd_client: crates `mpd_protocol` - nom-based streaming MPD response parser, command
encoder, blocking + async connection - and `mpd_client` - tokio client running an idle/noidle
loop, typed commands and responses). The sandbox has NO network: always pass `--offline` to cargo
(`cargo test --workspace --offline`). Do not read or write anything under /repo, /verif, /root/.vp or
/root/.claude, and do not touch other directories under {root}. Do not commit anything and never
run `git stash` (the .git directory is shared with other worktrees).

## The property

**{id} - {title}**

Statement: {statement}

Quantified over: {quant}

Code it is anchored in: {files}
Mechanisms meant to make it hold:
{mechs}

## What to produce

Produce TWO independent, realistic changes ("mutations") to the library source of
mpd_protocol and/or mpd_client (src/ files only, never the existing tests) such that, for each one:

1. the workspace still compiles and the ENTIRE existing test suite still passes
   (`cargo test --workspace --offline`, 101 unit tests + doctests, none edited);
2. the property above is violated for some input / schedule / history / fault;
3. the violation is VERY HARD to find. Assume the adversary is a strong randomized tester: it
   generates inputs from the full grammar with boundary values (buffer sizes 4096/8192/65536 +-1,
   2^64, empty strings, every special character class, keyword look-alikes, multi-byte characters,
   case-mapping oddities), all argument positions and counts up to the documented limits, both
   connection flavours with short writes, every construction path of a command or list (new, builder
   methods, extend, add, From impls, clones), operation sequences of a few dozen steps compared with
   a model after every step, and it runs with and without a tracing subscriber and with and without
   the optional cargo features. Your change must still slip through: make it depend on a CONJUNCTION
   of two or three individually unremarkable conditions (a particular state reached by an earlier
   operation AND a particular shape of the next input; a value that is only wrong for one combination
   of two parameters; behaviour that differs only on the second use of an object; a threshold nobody
   would pick as a boundary; an interaction between two features that are rarely used together), or on
   two cooperating code sites that each look fine alone. It must NOT be something ordinary use
   would expose at once, and it must be a genuine violation of the statement above (not of some
   stronger property).
4. you provide a demonstration: a new integration test file (e.g. `mpd_client/tests/seed_demo_1.rs`
   or `mpd_protocol/tests/seed_demo_1.rs`, using only the public API and dev-dependencies already
   in Cargo.toml such as tokio, tokio-test, assert_matches) which FAILS with the change applied and
   PASSES on the unchanged code. Verify both directions yourself.

The two changes must differ in kind from each other AND from these changes that others have already
produced for this property (do not repeat them or close variants of them):
{earlier}

## Deliverables (exact layout)

Create `{out}/1/` and `{out}/2/`, each containing:
- `patch.diff` - `git diff` of the library source change only (relative to the worktree HEAD; must
  apply with `git apply` on a clean checkout; do NOT include the demo file in it);
- the demonstration file(s), plus `demo_path.txt` containing, on separate lines, the path where the
  demo must be placed relative to the worktree root (e.g. `mpd_client/tests/seed_demo_1.rs`) and the
  exact command to run it (e.g. `cargo test --offline -p mpd_client --test seed_demo_1`);
- `README.md` (at most ~60 lines) - what the change is, why it breaks the property, what exactly is
  needed for the violation to manifest, and the commands you ran with their observed results.

Working style: keep every single message and every single tool call SMALL (write files with several
small Write/Edit calls rather than one huge one; never paste long code into your prose; demo tests at
most ~120 lines).

When done, restore the worktree to a clean state (`git checkout -- . && git clean -fd -e target`),
and reply with a summary of at most 25 lines.
"""

for pid in ids:
    p = props[pid]
    d = f"{root}/{pid}"
    os.makedirs(d, exist_ok=True)
    wt = f"{d}/wt"
    if not os.path.isdir(wt):
        subprocess.check_call(["git", "-C", "/repo", "worktree", "add", "--detach", wt, "HEAD"], stdout=subprocess.DEVNULL, stderr=subprocess.DEVNULL)
    earlier = []
    for sd in sorted(glob.glob(f"/verif/seeded/{pid}*")):
        rd = f"{sd}/README.md"
        if os.path.exists(rd):
            txt = " ".join(open(rd).read().split())
            earlier.append("  - " + txt[:230])
    q = p.get("quantifier", {})
    text = TEMPLATE.format(
        wt=wt, root=root, out=f"{d}/out", id=pid, title=p["title"], statement=p["statement"],
        quant=q.get("text", ""), files=", ".join(p["anchors"]["files"]),
        mechs="\n".join(f"  - {m['name']} ({m['where']})" for m in p["anchors"].get("mechanism", [])),
        earlier="\n".join(earlier) or "  (none)",
    )
    open(f"{d}/TASK.md", "w").write(text)
    print("wrote", f"{d}/TASK.md")
