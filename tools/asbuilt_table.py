#!/usr/bin/env python3
"""Prints the markdown table of DESIGN.md section 4b from the evidence files of the last quick runs and,
with --write, replaces the table between the markers in DESIGN.md."""
import json, os, re, sys

ROOT = os.path.dirname(os.path.dirname(os.path.abspath(__file__)))
rows = ["| id | parts of the quick tier (evaluations; x = exhaustive) | executions | main run | second build profile |", "|---|---|---:|---:|---|"]
for i in range(1, 21):
    pid = f"C{i:02d}"
    p = f"{ROOT}/evidence/{pid}.json"
    if not os.path.exists(p):
        continue
    e = json.load(open(p))
    c = e["coverage"]
    parts = "; ".join(f"{x['part']} {x['evaluations']}{'x' if x.get('exhaustive') else ''}" for x in c.get("parts", []))
    alt = c.get("plain_profile_build") or c.get("chrono_build")
    alt_txt = ""
    if alt:
        kind = "plain" if "plain_profile_build" in c else "plain + chrono"
        alt_txt = f"{kind}: {alt['evaluations']} evaluations, {alt['wall_s']:.0f} s"
    rows.append(f"| {pid} | {parts} | {c.get('executions', '')} | {e['wall_s']:.0f} s | {alt_txt} |")
table = "\n".join(rows)
print(table)
if "--write" in sys.argv:
    d = open(f"{ROOT}/DESIGN.md").read()
    a, b = "<!-- asbuilt-table-begin -->", "<!-- asbuilt-table-end -->"
    assert a in d and b in d
    d = d[: d.index(a) + len(a)] + "\n" + table + "\n" + d[d.index(b):]
    open(f"{ROOT}/DESIGN.md", "w").write(d)
